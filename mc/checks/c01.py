"""C01 - Sequence and Source compute the left-to-right composition of their elements.

Exhaustive enumeration (driver E1):
  * every element list of length 0..N over a vocabulary of 17 element factories (plain callable,
    Call, Variable, Filter, three Slices, Count, RunIf, Reverse, End, accumulators as FillCompute and
    as Run(FillCompute), a Split, an empty Sequence, an empty Split), every flow range(m) bare and as
    (data, context) pairs;
  * law "fold": the flat Sequence(e1..en).run(flow) equals the materialised fold
    out = transform(e_i)(out) over fresh standalone elements, where transform is el.run for a run
    element, a map for a callable and fill-all-then-compute for a fill/compute element (written
    here by hand, not through lena's Run adapter);
  * law "regroup": every bracketing of the same list into nested Sequences (every contiguous
    sub-list wrapped, empty Sequences inserted anywhere, all multi-group trees, double and triple
    wrapping) and every Source form (iterable or callable first element, nested Sources, grouped
    tails) gives the same list as the flat Sequence;
  * law "identity": a pipeline made only of empty Sequences yields the very same objects;
  * law "illtyped": every argument that is neither a run element, nor callable, nor a fill/compute
    element raises LenaTypeError from the constructor, at every position of a Sequence, a nested
    Sequence, a Source tail, and (non-callable non-iterable) as first element of a Source. Among the
    arguments are the objects lena's own adapters make: FillInto(...) objects (fill_into only) are
    rejected; SourceEl objects (callable without an argument) may be rejected or taken as callables;
  * law "adapters": objects made by Call, FillCompute, Run and FillRequest (also with renamed
    methods) are elements: at every position of short good lists, in every form, judged by fold /
    regroup like every other element; SourceEl(flow) is a first element of a Source (two forms);
  * law "seqkinds": a nested sequence of another kind is ONE element, judged by what it offers like
    every argument: FillComputeSeq objects (fill and compute; pre-elements of every kind - callable,
    Filter / Slice, an accumulator cast to FillInto or left as it is, a user object behind FillInto -,
    with and without elements after the accumulator, one inside another) at every position of short good
    lists and in every ordered pair, in every form, judged by fold (the standalone object filled with
    the whole flow, then computed) and regroup; FillSeq objects (fill only) are ill-typed arguments;
  * law "runif": RunIf(select, e1..en) for every inner list over the vocabulary, every kind of
    selector (callable, class, Selector, list, tuple; selecting isolated values, runs of consecutive
    values, all, none), the inner elements given as arguments / as one Sequence / grouped, the RunIf
    alone, nested, in a Source tail and between other elements: every selected value is fed to the
    inner elements as a flow of this ONE value, not selected values pass unchanged (RunIf docstring);
  * law "nodata": elements without data (lena.meta: SetContext, StoreContext - they set or store the
    static context of the sequence and have no stream transformation) among the arguments: one such
    element of either kind at every slot of every wrapped / grouped bracketing and of every Source form
    - between two elements, at either end, inside every nested Sequence, in the tails of nested
    Sources, BEFORE the generating element of every Source (the generating element is the first
    element with data; lena's own tests build Source(SetContext(..), first, ...)) -, a nested Sequence
    that holds nothing but such an element (at the slots of the flat forms), and such elements in all
    slots at once: the result is the one of the flat Sequence of the elements with data.
"""
import itertools
import json
import warnings

import lena.core
import lena.flow
import lena.math

from mc.core import Result, result_violations
from mc.ref import c01c05_common as cm
from mc.ref import c01_adapters as ad
from mc.ref import c01_nodata as nd
from mc.ref.c01_adapters import build

ID = "C01"
LEVEL = "exploration"
DESIGN_REF = "DESIGN.md section 5, C01"
RULE = ("one evaluation = one real pipeline object (a flat Sequence, one bracketing into nested "
        "Sequences, or one Source form) built from fresh elements and run to exhaustion over one fresh "
        "flow, judged against the materialised fold (flat form) or against the flat form (all other "
        "forms); a case is non-trivial when the list has at least two elements, the flow is not empty and "
        "the pipeline's result differs from its input; ill-typed constructions are always non-trivial; "
        "a RunIf case (one RunIf with one inner list, selector, inner form and place over one flow, "
        "judged against the RunIf docstring applied by hand) is non-trivial when the inner list is not "
        "empty and at least two values of the flow are selected; "
        "a form of the nodata law (a bracketing or Source form with elements without data among its "
        "arguments, judged against the flat Sequence of the elements with data) is one more evaluation of "
        "its list and flow and non-trivial by the same rule; "
        "cases are distinct by construction of the enumeration")
ASSUMPTIONS = [
    "vocabulary of 17 element factories (see bounds_description); data are small ints, contexts are "
    "private one-key dictionaries; every element object is used in exactly one pipeline",
    "results are compared after the pipeline is exhausted (values, order, value types, contexts); "
    "exceptions are compared by type only",
    "the per-element stream transformation is the element's own run method for run elements; for "
    "callables and fill/compute elements it is the map / fill-then-compute reading of the Run docstring; "
    "for RunIf (law runif) it is its docstring: each selected value alone through the elements given "
    "(one set of element objects for the whole flow), the others unchanged",
    "objects made by lena's adapters are judged by what they offer: run / __call__ / fill+compute make "
    "an element (Call, FillCompute, Run, FillRequest), fill_into alone does not (FillInto: "
    "LenaTypeError); a SourceEl (callable without an argument) in a tail may be rejected or taken as "
    "a callable, as first element of a Source it stands for its flow",
    "elements without data are the two lena.meta documents, SetContext(key, constant) and StoreContext(); "
    "they set / store static context, which no element of the vocabulary turns into data (that is "
    "UpdateContextFromStatic, C13); a Source always has a generating element (an element with data); the "
    "static context they set is not looked at here (C13)",
    "a FillComputeSeq among the arguments is a fill/compute element: its stream transformation is the one "
    "of the standalone FillComputeSeq object (fill the whole flow, then compute; C05 judges that object "
    "itself); a FillSeq offers fill alone and cannot be converted (LenaTypeError); FillRequestSeq "
    "objects are not in the alphabet (C16)",
    "a single tuple argument (Sequence((a, b))) is outside the alphabet: the docstring and the code "
    "disagree about it and the statement does not mention it; a tuple among several arguments is ill-typed",
]
NONTRIVIAL_FLOOR = {"quick": 250000, "thorough": 2500000}
BUDGET_S = {"quick": 240, "thorough": 1500}

VOCAB = [
    "inc", "Variable", "Filter(even)", "Slice(1,3)", "Slice(-1)", "Slice(-2,None)", "Count", "RunIf",
    "Reverse", "End", "Sum", "StoreFilled(one_by_one)", "Call(inc)", "Run(Sum)", "Split([inc,Sum],2)",
    "Sequence()", "Split([])",
]


def _maxlen(tier):
    return 4 if tier == "thorough" else 3


def describe(tier):
    N = _maxlen(tier)
    return ("element lists of length 0..%d over %d factories %s; flows of m values -1, 0, 1, ... bare and as "
            "(i, {'i': i}) pairs, m in %s; per list of length n = 0..%d all %s pipeline forms; ill-typed "
            "arguments %s at every position of good lists of length 0..2 over %s (of these %s may also be "
            "taken as callables); adapter objects %s at every position of good lists of length 0..%d and "
            "in every ordered pair, all forms; nested sequences of other kinds %s likewise (pairs among "
            "themselves), FillSeq objects among the ill-typed arguments; RunIf(selector, inner list) for every inner list of length "
            "0..%d over the factories, selectors %s (inner lists longer than 1: %s), inner forms %s, places "
            "%s, flows of m = %s values "
            "bare, with contexts and with None values; elements without data %s: for lists of length "
            "0..%d one at every slot (top level, inside nested Sequences, tails of nested Sources, before "
            "the generating element) of the forms %s, in the flat ones also a nested Sequence of one such "
            "element, and all slots at once (%s forms with such elements per list), for longer "
            "lists before the generating elements of the flat Source forms (iterable first, callable first, "
            "nested Source after one element) and in every slot of these and of the flat Sequence at once "
            "(%d forms), over flows of m = %s values bare and with contexts (lists shorter than 2: all flows); "
            "lists with adapter objects are not given elements without data"
            % (N, len(VOCAB), VOCAB,
               {"n=%d" % n: list(_flow_lengths(tier, n)) for n in sorted(set((min(N, 3), N)))},
               N, [len(forms(n)) for n in range(N + 1)], [b for b in BAD], GOOD_FOR_BAD, OPEN,
               ad.ACCEPTED_ORDER, 2 if tier == "thorough" else 1, ad.NESTED_ORDER, _runif_maxlen(tier),
               ad.SELECTOR_ORDER, _runif_selectors(tier, 2), RUNIF_INNER_FORMS, RUNIF_PLACES,
               list(_runif_flow_lengths(tier)),
               nd.NODATA_ORDER, _nodata_full_len(tier), list(_NODATA_BASE),
               [len(nodata_forms(n, tier)) for n in range(_nodata_full_len(tier) + 1)],
               len(nodata_forms(_nodata_full_len(tier) + 1, tier)),
               {"n<=2": list(_nodata_flow_lengths(2)), "n>=3": list(_nodata_flow_lengths(3))}))


# ---------------------------------------------------------------------------------------------------
# pipeline forms (bracketings)

def _groupings(seq):
    """All trees over the contiguous index list *seq* in which every inner node has >= 2 children
    (the flat list included)."""
    seq = list(seq)
    n = len(seq)
    if n <= 1:
        return [seq]
    out = []
    # compositions of n into k >= 2 blocks (k == n is the flat list)
    for cuts in itertools.product((0, 1), repeat=n - 1):
        blocks, cur = [], [seq[0]]
        for c, x in zip(cuts, seq[1:]):
            if c:
                blocks.append(cur)
                cur = [x]
            else:
                cur.append(x)
        blocks.append(cur)
        if len(blocks) < 2:
            continue
        choices = []
        for b in blocks:
            if len(b) == 1:
                choices.append([b[0]])
            else:
                choices.append([t for t in _groupings(b)])
        for combo in itertools.product(*choices):
            out.append([c for c in combo])
    return out


_FORMS = {}


def forms(n):
    """Deterministic list of pipeline forms for a list of n elements; the first one is flat."""
    if n in _FORMS:
        return _FORMS[n]
    flat = list(range(n))
    trees = []          # (kind, tree)
    seen = set()

    def add(kind, tree):
        key = json.dumps(tree)
        if key not in seen:
            seen.add(key)
            trees.append((kind, tree))

    add("flat", flat)
    for i in range(n + 1):
        for j in range(i, n + 1):
            add("wrap-empty" if i == j else "wrap", flat[:i] + [flat[i:j]] + flat[j:])
    for t in _groupings(flat):
        add("grouped", t)
    if n <= 3:      # double wrapping of every contiguous sub-list (for n = 4 only of the whole list)
        for i in range(n + 1):
            for j in range(i, n + 1):
                add("deep", flat[:i] + [[flat[i:j]]] + flat[j:])
    add("deep", [[[flat]]])
    if n >= 2:
        for t in _groupings(flat):
            if t != flat:
                add("deep", [t])            # a grouped tree wrapped as a whole
    every = []
    for x in flat:
        every.extend([[], x])
    every.append([])
    add("wrap-empty", every)

    out = [{"kind": k, "top": "sequence", "tree": t} for k, t in trees]
    # Source forms: the flow is the first element
    for k, t in trees:
        if k in ("flat", "wrap", "wrap-empty", "grouped"):
            if n >= 4 and k == "wrap-empty" and t != every:
                continue
            out.append({"kind": "source-list/" + k, "top": "source-list", "tree": t})
    out.append({"kind": "source-callable/flat", "top": "source-callable", "tree": flat})
    out.append({"kind": "source-callable/deep", "top": "source-callable", "tree": [[[flat]]]})
    # the first element is a SourceEl adapter around the flow (an iterable) or around a callable
    out.append({"kind": "source-adapter", "top": "source-el-list", "tree": flat})
    out.append({"kind": "source-adapter", "top": "source-el-callable", "tree": flat})
    for k in range(n + 1):
        out.append({"kind": "source-nested", "top": "source-nested", "tree": flat, "k": k})
        out.append({"kind": "source-nested", "top": "source-nested-callable", "tree": flat, "k": k})
    _FORMS[n] = out
    return out


# law "nodata": the forms above with elements without data (lena.meta: SetContext, StoreContext) among
# the arguments. Base forms: the flat list, every wrapped / grouped bracketing, and every Source form
# over them (an empty nested Sequence is an element with data like any other and adds nothing here).
_NODATA_BASE = ("flat", "wrap", "grouped", "source-list/flat", "source-list/wrap", "source-list/grouped",
                "source-callable/flat", "source-adapter", "source-nested")
_NODATA_FORMS = {}


def _nodata_full_len(tier):
    """Lists up to this length get one element without data at EVERY slot of EVERY base form; longer
    lists get it before the generating element of the flat Source forms, and everywhere at once."""
    return 3 if tier == "thorough" else 2


def nodata_forms(n, tier):
    """Deterministic list of the forms with elements without data for a list of n elements."""
    full = n <= _nodata_full_len(tier)
    if (n, full) in _NODATA_FORMS:
        return _NODATA_FORMS[(n, full)]
    flat = list(range(n))
    out, seen = [], set()

    def add(f):
        key = json.dumps(f, sort_keys=True)
        if key not in seen:
            seen.add(key)
            out.append(f)

    for base in forms(n):
        if base["kind"] not in _NODATA_BASE:
            continue
        if full:
            for f in nd.single(base, sequences_of_one=base["kind"].endswith("flat")):
                add(f)
            add(nd.saturated(base))
            continue
        # reduced: flat forms; of the nested Sources the one that splits the list after one element
        if base["tree"] != flat or base["kind"] == "source-adapter" or base["top"] == "source-nested-callable":
            continue
        if base["top"].startswith("source-nested") and base["k"] != min(1, n):
            continue
        if base["top"] != "sequence":
            for f in nd.before_first(base):
                add(f)
        add(nd.saturated(base))
    _NODATA_FORMS[(n, full)] = out
    return out


def _nodata_flow_lengths(n):
    return (0, 1, 3) if n <= 2 else (0, 3)


def _nodata_flows(tier, n):
    """Flows of the nodata law: where an argument stands does not meet the length of the flow, so lists
    of two elements are run over flows of 0, 1 and 3 values, longer lists over flows of 0 and 3 values
    (bare and with contexts)."""
    if n <= 1:
        return frozenset(_flows(tier, n))
    return frozenset((kind, m) for kind in cm.FLOW_KINDS for m in _nodata_flow_lengths(n))


def _args(tree, els):
    out = []
    for item in tree:
        if isinstance(item, list):
            out.append(lena.core.Sequence(*_args(item, els)))
        elif nd.is_nodata(item):
            out.append(nd.build(item))      # a fresh element without data
        else:
            out.append(els[item])
    return out


def make_thunk(form, specs, flow):
    """Build the pipeline of *form* from fresh elements; return a thunk that runs it over *flow*."""
    els = [build(s) for s in specs]
    top = form["top"]
    args = _args(form["tree"], els)
    if top == "sequence":
        seq = lena.core.Sequence(*args)
        return lambda: seq.run(flow)
    # elements without data that stand before the generating element of the Source (law nodata)
    pre = [nd.build(leaf) for leaf in form.get("pre", ())]
    if top == "source-list":
        src = lena.core.Source(*(pre + [flow] + args))
        return lambda: src()
    if top == "source-callable":
        src = lena.core.Source(*(pre + [lambda: iter(flow)] + args))
        return lambda: src()
    if top in ("source-el-list", "source-el-callable"):
        first = lena.core.SourceEl(flow if top == "source-el-list" else (lambda: iter(flow)))
        src = lena.core.Source(*(pre + [first] + args))
        return lambda: src()
    first = flow if top == "source-nested" else (lambda: iter(flow))
    if "inner" in form:     # the two argument lists written out (law nodata)
        inner_args, outer_args = _args(form["inner"], els), args
    else:
        k = form["k"]
        inner_args, outer_args = args[:k], args[k:]
    pre_inner = [nd.build(leaf) for leaf in form.get("pre_inner", ())]
    inner = lena.core.Source(*(pre_inner + [first] + inner_args))
    src = lena.core.Source(*(pre + [inner] + outer_args))
    return lambda: src()


# ---------------------------------------------------------------------------------------------------
# reference: the materialised fold, with the stream transformation of each element kind written out

def step(el, values):
    """The stream transformation of ONE standalone element applied to a list of values."""
    run = getattr(el, "run", None)
    if callable(run):
        return list(run(iter(values)))
    if callable(el):
        return [el(v) for v in values]
    for v in values:
        el.fill(v)
    return list(el.compute())


def fold(specs, flow):
    out = list(flow)
    for s in specs:
        out = step(build(s), out)
    return out


STATELESS = frozenset(["inc", "Call(inc)", "Variable", "Filter(even)", "RunIf", "Reverse", "Sequence()",
                       "Split([])", "Call(obj,call=other)", "Run(inc)", "Run(None,run=genfunc)",
                       "Run(obj,run=go)"])


def check_shared(res, specs, flowspec, ref):
    """One Sequence object in two places, and two flows of one Sequence object read in turn (stateless
    elements, immutable values): the object stands for the composition of its elements wherever and
    however often it is used."""
    kind, m = flowspec
    res.count("shared_object_checked")
    # (1) s twice in one pipeline == the element list twice
    twice = cm.outcome(lambda: fold(list(specs) + list(specs), cm.make_flow(kind, m)))
    for top in ("sequence", "source"):
        case = {"law": "shared", "els": list(specs), "flow": [kind, m], "top": top}
        try:
            s = lena.core.Sequence(*[build(sp) for sp in specs])
            flow = cm.make_flow(kind, m)
            if top == "sequence":
                pipe = lena.core.Sequence(s, s)
                got = cm.outcome(lambda: pipe.run(flow))
            else:
                pipe = lena.core.Source(flow, s, s)
                got = cm.outcome(lambda: pipe())
        except Exception as e:
            got = ("exc", type(e).__name__ + " (at construction)", None)
        if not cm.same(got, twice):
            res.violation(case, cm.show(got), cm.show(twice),
                          {"law": "shared-object", "form": top, "diff": cm.diff_kind(got, twice)},
                          note="the same Sequence object used twice in one pipeline")
    # (2) two flows of one object, read alternately
    case = {"law": "interleaved", "els": list(specs), "flow": [kind, m]}
    flow2 = [v + 100 for v in cm.make_flow(kind, m)]
    ref2 = cm.outcome(lambda: fold(specs, flow2))
    try:
        s = lena.core.Sequence(*[build(sp) for sp in specs])
        g1, g2 = s.run(cm.make_flow(kind, m)), s.run(list(flow2))
        o1, o2 = [], []
        live = [(g1, o1), (g2, o2)]
        while live:
            for pair in list(live):
                try:
                    pair[1].append(next(pair[0]))
                except StopIteration:
                    live.remove(pair)
        got = (("ok", cm.canon(o1), o1), ("ok", cm.canon(o2), o2))
    except Exception as e:
        got = (("exc", type(e).__name__, None),) * 2
    if not (cm.same(got[0], ref) and cm.same(got[1], ref2)):
        res.violation(case, [cm.show(got[0]), cm.show(got[1])], [cm.show(ref), cm.show(ref2)],
                      {"law": "interleaved-runs", "diff": cm.diff_kind(got[0], ref)},
                      note="two flows of one Sequence object read alternately")


# ---------------------------------------------------------------------------------------------------
# law "callables": every kind of plain callable is an element (a per-value map), whatever its signature,
# whatever it remembers, and whatever objects the flow repeats

class _Nth(object):
    """Stateful callable: pairs every value with the number of calls so far."""

    def __init__(self):
        self.n = 0

    def __call__(self, value):
        self.n += 1
        return (value, self.n)


class _Star(object):
    def __call__(self, *args):
        return ("star-obj",) + args


def _f_plain(v):
    return ("plain", v)


def _f_star(*args):
    return ("star",) + args


def _f_star_kw(*args, **kwargs):
    return ("star-kw",) + args


def _f_default(v, k=1):
    return ("default", v, k)


def _make_callable(name):
    import functools
    return {"def f(v)": lambda: _f_plain, "def f(*args)": lambda: _f_star,
            "def f(*args, **kwargs)": lambda: _f_star_kw, "def f(v, k=1)": lambda: _f_default,
            "lambda v": lambda: (lambda v: ("lambda", v)),
            "functools.partial": lambda: functools.partial(_f_default, k=2),
            "object.__call__(self, *args)": lambda: _Star(), "stateful object": lambda: _Nth(),
            "bound method": lambda: _Nth().__call__, "builtin type": lambda: str,
            "generator function": lambda: _f_gen,
            "Call(obj, call=name)": lambda: lena.core.Call(_Named(), call="other"),
            "Call(callable obj, call=name)": lambda: lena.core.Call(_NamedCallable(), call="other")}[name]()


def _f_gen(v):
    """A plain callable that happens to be written as a generator function: applied to every value like
    any other callable, its result (a generator object) is the new value."""
    yield ("gen", v)
    yield ("gen2", v)


def _norm_result(r):
    import types
    if isinstance(r, types.GeneratorType):
        return ("generator", [_norm_result(x) for x in r])
    if isinstance(r, tuple):
        return tuple(_norm_result(x) for x in r)
    return r


class _Named(object):
    """Not callable itself; its method *other* is what Call(obj, call="other") calls."""

    def other(self, value):
        return ("other", value)


class _NamedCallable(_Named):
    def __call__(self, value):
        return ("__call__", value)


CALLABLES = ["Call(obj, call=name)", "Call(callable obj, call=name)", "def f(v)", "def f(*args)", "def f(*args, **kwargs)", "def f(v, k=1)", "lambda v",
             "functools.partial", "object.__call__(self, *args)", "stateful object", "bound method",
             "builtin type", "generator function"]
_BUF = [0]
CALL_FLOWS = {"empty": lambda: [], "one": lambda: [7], "distinct": lambda: [1000, 1001, 1002],
              "one object three times": lambda: [3000 + 0 * i for i in range(3)] and [_BUF, _BUF, _BUF],
              "equal small ints": lambda: [5, 5, 5, 6, 5]}
CALL_FORMS = ["Sequence(f)", "Sequence(Sequence(f))", "Source(flow, f)", "Run(f).run", "Sequence(f, g)",
              "Split([f]) in a Sequence"]


def check_callables(res):
    for name in CALLABLES:
        for fname in sorted(CALL_FLOWS):
            for form in CALL_FORMS:
                case = {"law": "callables", "callable": name, "flow": fname, "form": form}
                flow = CALL_FLOWS[fname]()
                f0 = _make_callable(name)
                expected = [f0(v) for v in flow]
                if form == "Sequence(f, g)":
                    g0 = _make_callable(name)
                    expected = [g0(v) for v in expected]
                try:
                    f = _make_callable(name)
                    if form == "Sequence(f)":
                        got = list(lena.core.Sequence(f).run(iter(flow)))
                    elif form == "Sequence(Sequence(f))":
                        got = list(lena.core.Sequence(lena.core.Sequence(f)).run(iter(flow)))
                    elif form == "Source(flow, f)":
                        got = list(lena.core.Source(flow, f)()) if flow else \
                            list(lena.core.Source(lambda: iter(flow), f)())
                    elif form == "Run(f).run":
                        got = list(lena.core.Run(f).run(iter(flow)))
                    elif form == "Sequence(f, g)":
                        got = list(lena.core.Sequence(f, _make_callable(name)).run(iter(flow)))
                    else:
                        got = list(lena.core.Sequence(lena.core.Split([f])).run(iter(flow)))
                    if name == "generator function":
                        got = [_norm_result(x) for x in got]
                        expected = [_norm_result(x) for x in expected]
                    observed = repr(got)
                    ok = got == expected
                except Exception as e:
                    ok, observed = False, "raised " + type(e).__name__
                res.case(nontrivial=len(flow) >= 2, outcome=(name, fname, form, observed))
                if not ok:
                    res.violation(case, observed, repr(expected),
                                  {"law": "callables", "callable": name,
                                   "flow_repeats_objects": fname in ("one object three times",
                                                                     "equal small ints"),
                                   "raised": observed.startswith("raised")})
    res.sample(case, 1)


class _Reader(object):
    """A re-iterable flow object with __iter__ only (no __len__, no __next__), like a file reader."""

    def __init__(self, values):
        self._values = values

    def __iter__(self):
        return iter(self._values)


CONTAINERS = {"list": list, "tuple": tuple, "iterator": iter, "generator": lambda xs: (x for x in xs),
              "iterable object": _Reader, "range-like": lambda xs: _Reader(tuple(xs))}
CONTAINER_PIPES = [("inc",), ("Slice(-1)",), ("Slice(1,3)",), ("Count",), ("Reverse",), ("Sequence()",),
                   ("Filter(even)", "Slice(-2,None)"), ("Sum",), ("Split([])",)]


def check_containers(res):
    """The flow may be any iterable: what comes out depends on its values only."""
    for cname in sorted(CONTAINERS):
        for specs in CONTAINER_PIPES:
            for m in (0, 1, 3, 5):
                for top in ("sequence", "source"):
                    case = {"law": "containers", "container": cname, "els": list(specs), "m": m, "top": top}
                    ref = cm.outcome(lambda: fold(specs, cm.make_flow("bare", m)))
                    try:
                        els = [build(sp) for sp in specs]
                        flow = CONTAINERS[cname](cm.make_flow("bare", m))
                        if top == "sequence":
                            got = cm.outcome(lambda: lena.core.Sequence(*els).run(flow))
                        else:
                            got = cm.outcome(lambda: lena.core.Source(flow, *els)())
                    except Exception as e:
                        got = ("exc", type(e).__name__ + " (at construction)", None)
                    res.case(nontrivial=m >= 2, outcome=(cname, specs, m, top, got[1]))
                    if not cm.same(got, ref):
                        res.violation(case, cm.show(got), cm.show(ref),
                                      {"law": "containers", "container": cname, "form": top,
                                       "diff": cm.diff_kind(got, ref)})
    res.sample(case, 1)


def check_compose(res, specs, flowspec, form_list=None, tier=None):
    """Run every form of the list *specs* over the flow and judge it (with *tier* also the forms with
    elements without data of that tier). Returns the last case."""
    kind, m = flowspec
    n = len(specs)
    flow0 = cm.make_flow(kind, m)
    ref = cm.outcome(lambda: fold(specs, flow0))
    all_forms = forms(n)
    flat_form = all_forms[0]
    only_empty = all(s == "Sequence()" for s in specs)
    base_nt = n >= 2 and m > 0 and not (ref[0] == "ok" and ref[1] == cm.canon(cm.make_flow(kind, m)))
    flat_out = None
    case = None
    todo = all_forms if form_list is None else form_list
    if form_list is None and tier is not None and tuple(flowspec) in _nodata_flows(tier, n):
        todo = list(todo) + nodata_forms(n, tier)
    if flat_form not in todo:
        todo = [flat_form] + list(todo)
    for form in todo:
        flow = cm.make_flow(kind, m)
        case = {"law": "compose", "els": list(specs), "flow": [kind, m], "form": form}
        try:
            thunk = make_thunk(form, specs, flow)
        except Exception as e:
            got = ("exc", type(e).__name__ + " (at construction)", None)
        else:
            got = cm.outcome(thunk)
        if form is flat_form:
            flat_out = got
            expected, law = ref, "fold"
        else:
            expected, law = flat_out, form.get("law", "regroup")
        res.case(nontrivial=base_nt, outcome=(got[0], got[1]))
        if law == "nodata":
            res.count("nodata_forms_run")
        if got[0] == "exc":
            res.count("pipelines_raising")
        if not cm.same(got, expected):
            res.violation(case, cm.show(got), cm.show(expected),
                          {"law": law, "form": form["kind"], "diff": cm.diff_kind(got, expected)},
                          note="expected = " + ("materialised fold over standalone elements"
                                                if law == "fold" else "result of the flat Sequence"
                                                + (" of the elements with data" if law == "nodata" else "")))
        elif (kind == "bare" and got[0] == "ok" and all(sp in STATELESS for sp in specs)):
            # the same pipeline object over the same (immutable) flow again: elements without state
            # compose to a function of the flow, so a second run / call yields the same values
            res.count("rerun_checked")
            again = cm.outcome(thunk)
            if not cm.same(again, got):
                res.violation(dict(case, law="rerun"), cm.show(again), cm.show(got),
                              {"law": "rerun", "form": form["top"], "diff": cm.diff_kind(again, got)},
                              note="second run of the same pipeline object (stateless elements, bare flow)")
        if (form is flat_form and kind == "bare" and ref[0] == "ok" and n >= 1
                and all(sp in STATELESS for sp in specs)):
            check_shared(res, specs, flowspec, ref)
        if only_empty and got[0] == "ok" and cm.same(got, expected):
            # an empty Sequence is the identity: the very same objects come out
            res.count("identity_checked")
            if not (len(got[2]) == len(flow) and all(a is b for a, b in zip(got[2], flow))):
                res.violation(dict(case, law="identity"), "equal values but not the same objects",
                              "the input objects themselves",
                              {"law": "identity", "form": form["kind"]})
    return case


# ---------------------------------------------------------------------------------------------------
# ill-typed arguments

class _RunAttr(object):
    run = 5


class _FillOnly(object):
    def fill(self, value):
        pass


class _ComputeOnly(object):
    def compute(self):
        yield 0


class _FillComputeAttrs(object):
    fill = 5
    compute = 5


class _FillRequestOnly(object):
    """fill and request but neither compute nor run: a FillRequest element is not a Sequence element."""
    def fill(self, value):
        pass

    def request(self):
        yield 0


BAD = {
    "5": lambda: 5,
    "1.5": lambda: 1.5,
    "'s'": lambda: "s",
    "None": lambda: None,
    "object()": lambda: object(),
    "[]": lambda: [],
    "[inc]": lambda: [cm.inc],
    "{}": lambda: {},
    "{'run': inc}": lambda: {"run": cm.inc},
    "run=5": lambda: _RunAttr(),
    "fill-only": lambda: _FillOnly(),
    "compute-only": lambda: _ComputeOnly(),
    "fill=5,compute=5": lambda: _FillComputeAttrs(),
    "fill+request": lambda: _FillRequestOnly(),
    "()": lambda: (),
    "(inc,)": lambda: (cm.inc,),
}
# objects made by lena's adapters that are not elements of a Sequence (FillInto: fill_into only) ...
BAD.update(ad.REJECTED)
# ... and sequences that offer fill alone (FillSeq)
BAD.update(ad.REJECTED_SEQS)
# ... and SourceEl objects, callable without an argument: rejected by the constructor or taken as
# callables (the statement leaves it open, R2) - but never a LenaTypeError later, during the run
OPEN = sorted(ad.OPEN)
BAD.update(ad.OPEN)
# as first element of a Source only non-callable non-iterable objects are ill-typed
BAD_FIRST = ["5", "1.5", "None", "object()", "run=5", "fill-only", "fill=5,compute=5",
             "FillInto(inc)", "FillInto(Filter(even))"]
GOOD_FOR_BAD = ["inc", "Slice(1,3)", "Sum", "Count", "Sequence()", "Split([inc,Sum],2)"]
PLACES = ["sequence", "nested", "nested-alone", "source-tail", "source-tail-nested", "source-first"]


def check_illtyped(res, bad, good, pos, place):
    """Construct a sequence with the ill-typed argument *bad* at position *pos* among the good
    elements; it must raise LenaTypeError from the constructor."""
    case = {"law": "illtyped", "bad": bad, "good": list(good), "pos": pos, "place": place}
    els = [build(s) for s in good]
    args = els[:pos] + [BAD[bad]()] + els[pos:]
    flow = cm.make_flow("bare", 3)
    S, Src = lena.core.Sequence, lena.core.Source
    built = None
    try:
        if place == "sequence":
            built = S(*args)
            run = lambda: built.run(flow)
        elif place == "nested":
            built = S(*(els[:pos] + [S(BAD[bad]())] + els[pos:]))
            run = lambda: built.run(flow)
        elif place == "nested-alone":
            built = S(S(*args))
            run = lambda: built.run(flow)
        elif place == "source-tail":
            built = Src(flow, *args)
            run = lambda: built()
        elif place == "source-tail-nested":
            built = Src(lambda: iter(flow), S(*args))
            run = lambda: built()
        elif place == "source-first":
            built = Src(BAD[bad](), *els)
            run = lambda: built()
        else:
            raise ValueError(place)
        observed = "constructed"
    except lena.core.LenaTypeError:
        observed = "LenaTypeError"
    except Exception as e:
        observed = type(e).__name__
    later = None
    if observed == "constructed":
        o = cm.outcome(run)
        later = cm.show(o, 120)
    res.case(nontrivial=True, outcome=(observed, bad, place))
    if bad in ad.OPEN:
        # may be taken as a callable; then the run fails as Python does, not with a LenaTypeError
        if observed == "LenaTypeError" or (observed == "constructed"
                                           and not (o[0] == "exc" and o[1] == "LenaTypeError")):
            return case
        res.violation(case, observed if later is None else "constructed; run: " + later,
                      "LenaTypeError from the constructor, or accepted as a callable and no "
                      "LenaTypeError during the run",
                      {"law": "illtyped", "bad": bad, "place": place, "observed": observed,
                       "late": later is not None})
        return case
    if observed != "LenaTypeError":
        res.violation(case, observed if later is None else "constructed; run: " + later,
                      "LenaTypeError from the constructor",
                      {"law": "illtyped", "bad": bad, "place": place,
                       "observed": observed})
    return case


def _illtyped_cases():
    for place in PLACES:
        if place == "source-first":
            for bad in BAD_FIRST:
                for k in range(0, 3):
                    for good in itertools.product(GOOD_FOR_BAD, repeat=k):
                        yield bad, good, 0, place
            continue
        for bad in BAD:
            for k in range(0, 3):
                for good in itertools.product(GOOD_FOR_BAD, repeat=k):
                    for pos in range(k + 1):
                        if bad in ("()", "(inc,)") and k == 0 and place != "nested":
                            continue    # a single tuple argument: outside the alphabet (ASSUMPTIONS)
                        if bad in ("()", "(inc,)") and place == "nested":
                            continue    # would be S(()) - the same single-tuple form
                        if place == "nested-alone" and pos > 0:
                            continue
                        yield bad, good, pos, place


# ---------------------------------------------------------------------------------------------------
# law "adapters": objects made by lena's adapters are elements like any other

def _adapter_lists(tier, names):
    """Every accepted adapter object of *names* at every position of every good list of length 0..1
    (thorough: 0..2), and every ordered pair of adapter objects that begins with one of *names*."""
    longest = 2 if tier == "thorough" else 1
    for a in names:
        for k in range(longest + 1):
            for good in itertools.product(GOOD_FOR_BAD, repeat=k):
                for pos in range(k + 1):
                    yield tuple(good[:pos]) + (a,) + tuple(good[pos:])
    for a in names:
        for b in ad.ACCEPTED_ORDER:
            yield (a, b)


def _seqkind_lists(tier):
    """Every nested sequence of another kind at every position of every good list of length 0..1
    (thorough: 0..2), and every ordered pair of them."""
    longest = 2 if tier == "thorough" else 1
    for a in ad.NESTED_ORDER:
        for k in range(longest + 1):
            for good in itertools.product(GOOD_FOR_BAD, repeat=k):
                for pos in range(k + 1):
                    yield tuple(good[:pos]) + (a,) + tuple(good[pos:])
    for a in ad.NESTED_ORDER:
        for b in ad.NESTED_ORDER:
            yield (a, b)


# ---------------------------------------------------------------------------------------------------
# law "runif": RunIf(select, e1, ..., en) feeds every selected value to its elements as a flow of this
# one value; not selected values pass unchanged

RUNIF_INNER_FORMS = ["args", "sequence", "grouped"]
RUNIF_PLACES = ["alone", "nested", "source-tail", "between"]


def _runif(selname, inner_form, els):
    S = lena.core.Sequence
    select = ad.SELECTORS[selname][0]()
    if inner_form == "args":
        return lena.flow.RunIf(select, *els)
    if inner_form == "sequence":
        return lena.flow.RunIf(select, S(*els))
    # grouped: the first element in a Sequence of its own, the others in a second one
    return lena.flow.RunIf(select, S(*els[:1]), S(*els[1:]))


def _runif_reference(inner, pred, flow, between):
    """Written from the docstring of RunIf: the elements are the ones the user gave (one set for the
    whole flow), each selected value goes through them alone."""
    els = [build(s) for s in inner]
    values = step(build("inc"), list(flow)) if between else list(flow)
    out = []
    for v in values:
        if pred(v):
            part = [v]
            for el in els:
                part = step(el, part)
            out.extend(part)
        else:
            out.append(v)
    return step(build("Reverse"), out) if between else out


def _runif_flow_lengths(tier):
    return (0, 1, 2, 3, 4, 5)


def _runif_flows(tier):
    for m in _runif_flow_lengths(tier):
        for kind in cm.FLOW_KINDS_SHORT:
            yield (kind, m)


def check_runif(res, inner, selname, flowspec):
    kind, m = flowspec
    pred = ad.SELECTORS[selname][1]
    S, Src = lena.core.Sequence, lena.core.Source
    case = None
    refs = {}
    for between in (False, True):
        refs[between] = cm.outcome(lambda: _runif_reference(inner, pred, cm.make_flow(kind, m), between))
    consecutive, nontrivial = {}, {}
    for between in (False, True):
        seen = cm.make_flow(kind, m)        # the values that reach the RunIf
        if between:
            try:
                seen = step(build("inc"), seen)
            except Exception:
                seen = []
        marks = [bool(pred(v)) for v in seen]
        consecutive[between] = any(a and b for a, b in zip(marks, marks[1:]))
        nontrivial[between] = len(inner) >= 1 and sum(marks) >= 2
    for inner_form in RUNIF_INNER_FORMS:
        for place in RUNIF_PLACES:
            case = {"law": "runif", "inner": list(inner), "selector": selname, "flow": [kind, m],
                    "inner_form": inner_form, "place": place}
            flow = cm.make_flow(kind, m)
            expected = refs[place == "between"]
            try:
                r = _runif(selname, inner_form, [build(s) for s in inner])
                if place == "alone":
                    pipe = S(r)
                    thunk = lambda: pipe.run(flow)
                elif place == "nested":
                    pipe = S(S(), S(S(r)))
                    thunk = lambda: pipe.run(flow)
                elif place == "source-tail":
                    pipe = Src(flow, r)
                    thunk = lambda: pipe()
                else:
                    pipe = S(build("inc"), r, build("Reverse"))
                    thunk = lambda: pipe.run(flow)
            except Exception as e:
                got = ("exc", type(e).__name__ + " (at construction)", None)
            else:
                got = cm.outcome(thunk)
            res.case(nontrivial=nontrivial[place == "between"], outcome=(got[0], got[1]))
            if not cm.same(got, expected):
                res.violation(case, cm.show(got), cm.show(expected),
                              {"law": "runif", "selector": selname,
                               "consecutive_selected_values": consecutive[place == "between"],
                               "diff": cm.diff_kind(got, expected)},
                              note="expected = each selected value run alone through the elements given "
                                   "to RunIf, not selected values unchanged")
    return case


def _runif_maxlen(tier):
    return 3 if tier == "thorough" else 2


def _runif_selectors(tier, n):
    """All kinds of selector for inner lists of length 0..1 (thorough: every length); for longer lists
    the five predicates given as plain callables (the form of the selector and the composition of the
    inner list do not meet in the code paths the statement is about)."""
    if tier == "thorough" or n <= 1:
        return ad.SELECTOR_ORDER
    return ad.SELECTOR_ORDER[:5]


def _run_runif_lists(res, tier, lists):
    case = None
    for inner in lists:
        for selname in _runif_selectors(tier, len(inner)):
            for fs in _runif_flows(tier):
                case = check_runif(res, inner, selname, fs)
        res.sample(case, 2)


# ---------------------------------------------------------------------------------------------------
# shards

def shards(tier):
    out = [{"kind": "short", "bound": "len<=1"}, {"kind": "illtyped", "bound": "len<=1"},
           {"kind": "callables", "bound": "len<=1"}, {"kind": "seqkinds", "bound": "len<=1"},
           {"kind": "runif", "n": 1, "prefix": [], "bound": "len<=1"}]
    if tier == "thorough":
        for a in ad.ACCEPTED_ORDER:
            out.append({"kind": "adapters", "names": [a], "bound": "len<=1"})
    else:
        out.append({"kind": "adapters", "names": list(ad.ACCEPTED_ORDER), "bound": "len<=1"})
    for n in range(2, _runif_maxlen(tier) + 1):
        for a in VOCAB:
            out.append({"kind": "runif", "n": n, "prefix": [a], "bound": "len<=%d" % n})
    for a in VOCAB:
        out.append({"kind": "lists", "n": 2, "prefix": [a], "bound": "len<=2"})
    for a in VOCAB:
        out.append({"kind": "lists", "n": 3, "prefix": [a], "bound": "len<=3"})
    if _maxlen(tier) >= 4:
        for a in VOCAB:
            for b in VOCAB:
                out.append({"kind": "lists", "n": 4, "prefix": [a, b], "bound": "len<=4"})
    return out


def _flow_lengths(tier, n):
    if tier == "thorough":
        return (0, 1, 4) if n >= 4 else (0, 1, 2, 3, 4, 5)
    return (0, 1, 2, 3, 4)


def _flows(tier, n):
    for m in _flow_lengths(tier, n):
        for kind in (cm.FLOW_KINDS_SHORT if n <= 2 else cm.FLOW_KINDS):
            yield (kind, m)


def run_shard(p, tier):
    warnings.simplefilter("ignore")
    res = Result()
    if p["kind"] == "short":
        for n in (0, 1):
            for specs in itertools.product(VOCAB, repeat=n):
                for fs in _flows(tier, n):
                    case = check_compose(res, specs, fs, tier=tier)
                res.sample(case, 3)
        # pipelines made of empty Sequences only (identity law), a few more shapes
        for n in (2, 3, 4):
            for fs in _flows(tier, 1):
                case = check_compose(res, ("Sequence()",) * n, fs, tier=tier)
    elif p["kind"] == "callables":
        check_callables(res)
        check_containers(res)
    elif p["kind"] == "illtyped":
        for bad, good, pos, place in _illtyped_cases():
            case = check_illtyped(res, bad, good, pos, place)
        res.sample(case, 1)
    elif p["kind"] == "adapters":
        for specs in _adapter_lists(tier, p["names"]):
            for fs in _flows(tier, len(specs)):
                case = check_compose(res, specs, fs)
            res.sample(case, 1)
    elif p["kind"] == "seqkinds":
        for specs in _seqkind_lists(tier):
            for fs in _flows(tier, len(specs)):
                case = check_compose(res, specs, fs)
            res.sample(case, 1)
    elif p["kind"] == "runif":
        if p["n"] == 1:
            lists = [()] + [(a,) for a in VOCAB]
        else:
            lists = [tuple(p["prefix"]) + tail
                     for tail in itertools.product(VOCAB, repeat=p["n"] - len(p["prefix"]))]
        _run_runif_lists(res, tier, lists)
    else:
        rest = p["n"] - len(p["prefix"])
        for tail in itertools.product(VOCAB, repeat=rest):
            specs = tuple(p["prefix"]) + tail
            if all(s == "Sequence()" for s in specs):
                continue        # done in the short shard (keeps cases distinct)
            for fs in _flows(tier, p["n"]):
                case = check_compose(res, specs, fs, tier=tier)
            res.sample(case, 3)
    return res


def replay(case):
    warnings.simplefilter("ignore")
    res = Result()
    law = case.get("law")
    if law == "containers":
        check_containers(res)
        return [v for v in result_violations(res)
                if all(v["case"].get(k) == case.get(k) for k in ("container", "els", "m", "top"))]
    if law == "callables":
        check_callables(res)
        return [v for v in result_violations(res)
                if all(v["case"].get(k) == case.get(k) for k in ("callable", "flow", "form"))]
    if law in ("shared", "interleaved"):
        specs, flowspec = tuple(case["els"]), tuple(case["flow"])
        ref = cm.outcome(lambda: fold(specs, cm.make_flow(*flowspec)))
        check_shared(res, specs, flowspec, ref)
        return [v for v in result_violations(res) if v["case"].get("law") == law]
    if law in ("compose", "identity", "rerun"):
        form = case["form"]
        # re-judge this form only (the flat form is always executed as the yardstick)
        n = len(case["els"])
        match = [f for f in forms(n) if f == form] or [form]
        check_compose(res, tuple(case["els"]), tuple(case["flow"]), form_list=match)
        out = []
        for v in result_violations(res):
            if v["case"]["form"] == form:
                out.append(v)
        return out
    if law == "illtyped":
        check_illtyped(res, case["bad"], tuple(case["good"]), case["pos"], case["place"])
        return result_violations(res)
    if law == "runif":
        check_runif(res, tuple(case["inner"]), case["selector"], tuple(case["flow"]))
        return [v for v in result_violations(res)
                if all(v["case"].get(k) == case.get(k) for k in ("inner_form", "place"))]
    raise ValueError("unknown law %r" % (law,))


LEVEL_TEXT = ("bounded exhaustive exploration: every element list of length 0..3 (thorough: 0..4) over 17 "
              "element factories, every flow range(0..4) bare and with contexts, and for each list every "
              "bracketing into nested Sequences and every Source form is built from fresh objects and run on "
              "the real code; the flat form is compared with a hand-written materialised fold of the "
              "elements' stream transformations, every other form with the flat form; 25 kinds of ill-typed "
              "argument (among them FillInto and SourceEl adapter objects and FillSeq sequences) are placed at every position of "
              "Sequences, nested Sequences and Source tails; 11 objects made by the Call / FillCompute / Run "
              "/ FillRequest adapters and 9 FillComputeSeq objects (nested sequences of another kind: one "
              "fill/compute element each) go through the same fold and regroup laws; RunIf with every inner "
              "element list of length 0..2 (thorough: 0..3), 9 selectors (quick: 5 for inner lists longer "
              "than 1), 3 inner forms and 4 places is "
              "compared with its docstring applied by hand (each selected value alone through the inner "
              "elements); elements without data (SetContext, StoreContext) are put at every slot of every "
              "bracketing and Source form of every list of length 0..2 (thorough: 0..3) - also before the "
              "generating element of a Source and alone in a nested Sequence - and, for longer lists, before "
              "the generating elements of the flat Source forms and into all slots at once: the result must "
              "be that of the flat Sequence of the elements with data")
LEVEL_NOTE = ("holds for the enumerated vocabulary and bounds only; results are compared after exhaustion "
              "(laziness is C02's subject); a single tuple argument is outside the alphabet; the static "
              "context that elements without data set is C13's subject, here only the data flow is judged")
TECHNIQUE = ("exhaustive enumeration of programs x bracketings x flows on the real code against a "
             "materialised-fold reference, a flat-vs-regrouped differential relation (also with elements "
             "without data placed among the arguments) and a hand-written reading of the RunIf docstring")
