"""Self-test of the machinery (not a property check).

    /venv/bin/python -m mc.selftest [Cxx ...] [--seeds 0,1,2] [--tier quick]

For every registered check (MANIFEST.json) or the ones named:
  * runs the quick command in a fresh process under each seed, with the evidence redirected to a
    scratch directory (VERIF_EVIDENCE_DIR), and requires exit status 0 and no VIOLATION line;
  * requires verdict and all counts to be identical for every seed (evidence compared modulo seed,
    wall_s, samples, workers);
  * validates every evidence file against /root/.vp/EVIDENCE.schema.json with jsonschema (python3-vt).
"""
import json
import os
import shutil
import subprocess
import sys
import tempfile

VERIF = os.path.dirname(os.path.dirname(os.path.abspath(__file__)))


def strip(ev):
    ev = json.loads(json.dumps(ev))
    for k in ("seed", "wall_s"):
        ev.pop(k, None)
    cov = ev.get("coverage", {})
    for k in ("samples", "workers"):
        cov.pop(k, None)
    return ev


def main(argv):
    seeds = [0, 1, 2]
    tier = "quick"
    names = []
    i = 0
    while i < len(argv):
        if argv[i] == "--seeds":
            seeds = [int(s) for s in argv[i + 1].split(",")]; i += 2
        elif argv[i] == "--tier":
            tier = argv[i + 1]; i += 2
        else:
            names.append(argv[i].upper()); i += 1
    manifest = json.load(open(os.path.join(VERIF, "MANIFEST.json")))
    checks = [c["property_id"] for c in manifest["checks"]]
    if names:
        checks = [c for c in checks if c in names]
    schema = "/root/.vp/EVIDENCE.schema.json"
    failed = []
    for prop in checks:
        seen = None
        for seed in seeds:
            d = tempfile.mkdtemp(prefix="lena-verif-selftest-")
            try:
                env = dict(os.environ, VERIF_SEED=str(seed), VERIF_EVIDENCE_DIR=d)
                p = subprocess.run([os.path.join(VERIF, "check"), prop, "--tier", tier], cwd=VERIF,
                                   env=env, stdout=subprocess.PIPE, stderr=subprocess.STDOUT, text=True)
                out = p.stdout
                if p.returncode != 0 or "VIOLATION" in out:
                    failed.append((prop, seed, "exit %d\n%s" % (p.returncode, out[-2000:])))
                    continue
                path = os.path.join(d, prop + ".json")
                ev = json.load(open(path))
                if os.path.exists(schema) and shutil.which("python3-vt"):
                    v = subprocess.run(["python3-vt", "-c",
                                        "import json,jsonschema,sys;"
                                        "jsonschema.validate(json.load(open(sys.argv[1])),json.load(open(sys.argv[2])))",
                                        path, schema], stdout=subprocess.PIPE, stderr=subprocess.STDOUT, text=True)
                    if v.returncode != 0:
                        failed.append((prop, seed, "evidence does not validate: " + v.stdout[-1500:]))
                if not ev["coverage"].get("exhaustive"):
                    failed.append((prop, seed, "not exhaustive within budget"))
                cur = strip(ev)
                if seen is None:
                    seen = cur
                elif cur != seen:
                    diff = [k for k in cur["coverage"] if cur["coverage"].get(k) != seen["coverage"].get(k)]
                    failed.append((prop, seed, "evidence differs between seeds in %s" % diff))
                print("%s seed=%d ok: %s" % (prop, seed, out.strip().splitlines()[-1]))
            finally:
                shutil.rmtree(d, ignore_errors=True)
    for prop, seed, why in failed:
        print("SELFTEST FAILURE %s seed=%s: %s" % (prop, seed, why))
    print("selftest: %d checks x %d seeds, %d failure(s)" % (len(checks), len(seeds), len(failed)))
    return 1 if failed else 0


if __name__ == "__main__":
    sys.exit(main(sys.argv[1:]))
