"""Reference side of C19 (DESIGN.md section 5, C19): directory layouts, template / csv / stub-converter
contents, the stub ``subprocess`` and the naming model of MakeFilename.

Nothing here imports lena: everything is written from the property statement and the docstrings of
lena.output (Write.run, LaTeXToPDF.run, PDFToPNG, MakeFilename.__call__).
"""
import os
import re

OUT = "out"
TPL_DIR = "templates"
TPL_NAME = "tpl.tex"
EDGES = [0, 1, 2]
# A, B: one-dimensional histograms on EDGES with these bin contents; E: a plot that has become empty (a
# graph without points) - its CSV text is the empty string, a legal text like any other
DATA = {"A": [1, 2], "B": [3, 4], "E": None}
# the data letters a history job ranges over unless it names its own ("alphabet")
DEFAULT_LETTERS = "AB"
# the second template differs from the first by the smallest change a text can have: one more newline at
# its end (jinja drops one trailing newline of a template, so the source carries two)
LABELS = ("T1", "T1+nl")
# directory (relative to OUT) of plot i; None = no output.dirname at all
DIRS = ["d0", None, "d0/deep"]
KIND_ORDER = {".csv": 0, ".tex": 1, ".pdf": 2, ".png": 3, ".jpeg": 3}


# ------------------------------------------------------------------------------------------------
# contents
# ------------------------------------------------------------------------------------------------
def csv_text(letter):
    """What a one-dimensional histogram on EDGES with bin contents DATA[letter] looks like as CSV
    (ToCSV docstring: one "x,content" row per bin, the last bin repeated at the last edge)."""
    bins = DATA[letter]
    if bins is None:
        # ToCSV docstring: rows are joined by newlines and the text starts from the (by default empty)
        # header - no rows, no text
        return ""
    rows = ["%f,%f" % (float(EDGES[i]), float(bins[i])) for i in range(len(bins))]
    rows.append("%f,%f" % (float(EDGES[-1]), float(bins[-1])))
    return "\n".join(rows)


def template_source(kind, label):
    """The jinja source (LaTeX syntax of lena.output.render_latex) written into the template file."""
    tail = ""
    if label.endswith("+nl"):
        label, tail = label[:-3], "\n\n"
    if kind == "grouped":
        return (label + r":\BLOCK{for item in group}\input{\VAR{item.output.filepath}}"
                r"\BLOCK{endfor}%" + tail)
    return label + r":\input{\VAR{output.filepath}}%" + tail


def tex_text(label, csv_paths):
    """The rendered template: plain string substitution, no jinja."""
    tail = ""
    if label.endswith("+nl"):
        label, tail = label[:-3], "\n"
    return label + ":" + "".join("\\input{%s}" % p for p in csv_paths) + "%" + tail


def pdf_text(tex, csvs):
    return "PDF[" + tex + "".join("|" + c for c in csvs) + "]"


def png_text(pdf):
    return "PNG[" + pdf + "]"


MISSING = "<missing>"
_INPUT_RE = re.compile(r"\\input\{([^}]*)\}")


# ------------------------------------------------------------------------------------------------
# layout
# ------------------------------------------------------------------------------------------------
class Doc(object):
    """One rendered document: its csv members, and the tex / pdf / png derived from them."""

    def __init__(self, ident, members, stem, img="png"):
        self.id = ident
        self.members = members          # list of (member index, csv path)
        self.tex = stem + ".tex"
        self.pdf = stem + ".pdf"
        self.png = stem + "." + img     # the image (PDFToPNG's documented format option names it)

    def files(self):
        return [p for _, p in self.members] + [self.tex, self.pdf, self.png]


# a file name may contain a relative path (MakeFilename documents "{{variable.type}}/{{variable.name}}")
NAMES = ["sub/p0", "p1", "p2"]


def plot_stem(i):
    d = DIRS[i]
    return os.path.join(OUT, d, NAMES[i]) if d else os.path.join(OUT, NAMES[i])


def layout(kind, p, img="png"):
    if kind == "plain":
        return [Doc(NAMES[i], [(i, plot_stem(i) + ".csv")], plot_stem(i), img) for i in range(p)]
    if kind == "grouped":
        return [Doc("g", [(i, plot_stem(i) + ".csv") for i in range(p)], os.path.join(OUT, "combined"), img)]
    raise ValueError(kind)


def all_files(kind, p):
    out = []
    for d in layout(kind, p):
        out.extend(d.files())
    return out


def symbols(kind, p):
    """content -> short readable symbol, for samples and replay files."""
    table = {}
    for L in sorted(DATA):
        table[csv_text(L)] = "csv:" + L
    import itertools
    for doc in layout(kind, p):
        paths = [q for _, q in doc.members]
        for lab in LABELS:
            tex = tex_text(lab, paths)
            table[tex] = "tex:" + lab
            for combo in itertools.product(sorted(DATA), repeat=len(paths)):
                pdf = pdf_text(tex, [csv_text(c) for c in combo])
                table[pdf] = "pdf(%s;%s)" % (lab, "".join(combo))
                table[png_text(pdf)] = "png(%s;%s)" % (lab, "".join(combo))
    return table


# ------------------------------------------------------------------------------------------------
# stub subprocess (DESIGN.md 2.3): owns converter effects and completion order
# ------------------------------------------------------------------------------------------------
class ConverterEnv(object):
    """Records every converter command; performs its effect as a Python function when the process
    *completes*; answers poll() from an explorer-owned list ("pending" / "finished")."""

    def __init__(self, answers):
        self.answers = list(answers)
        self.npolls = 0
        self.launches = []      # (tool, target path)
        self.commands = []

    def popen(self, command, *args, **kwargs):
        return _Proc(self, list(command))

    def poll(self, proc):
        if proc.done:
            return proc.returncode
        k = self.npolls
        self.npolls += 1
        ans = self.answers[k] if k < len(self.answers) else "finished"
        if ans == "pending":
            return None
        proc.complete()
        return proc.returncode


def _read(path):
    try:
        with open(path) as f:
            return f.read()
    except (IOError, OSError):
        return MISSING


class _Proc(object):
    def __init__(self, env, command):
        self.env = env
        self.command = command
        self.done = False
        self.returncode = None
        self.stdout = b""
        self.stderr = b""
        tool = command[0] if command else "?"
        self.tool = tool
        env.commands.append(command)
        env.launches.append((tool, self._target()))

    def _target(self):
        c = self.command
        try:
            if self.tool == "pdflatex":
                tex = c[-1]
                outdir = c[c.index("-output-directory") + 1]
                base = os.path.basename(tex)
                if base.endswith(".tex"):
                    base = base[:-4]
                return os.path.join(outdir, base + ".pdf")
            if self.tool == "pdftoppm":
                fmt = [a for a in c[3:] if a.startswith("-") and a != "-singlefile"][0][1:]
                return c[2] + "." + fmt
        except (ValueError, IndexError):
            pass
        return "?"

    def complete(self):
        if self.done:
            return
        self.done = True
        self.returncode = 0
        c = self.command
        target = self._target()
        if target == "?":
            self.returncode = 1
            return
        if self.tool == "pdflatex":
            tex = _read(c[-1])
            csvs = [_read(m) for m in _INPUT_RE.findall(tex)]
            content = pdf_text(tex, csvs)
        else:
            content = png_text(_read(c[1]))
        d = os.path.dirname(target)
        if d and not os.path.isdir(d):
            self.returncode = 1
            return
        with open(target, "w") as f:
            f.write(content)

    def poll(self):
        return self.env.poll(self)

    def communicate(self, *args, **kwargs):
        self.complete()
        return (b"", b"")

    def wait(self, *args, **kwargs):
        self.complete()
        return self.returncode

    def terminate(self):
        self.done = True
        if self.returncode is None:
            self.returncode = -15

    kill = terminate


class FakeSubprocess(object):
    """Stands in for the ``subprocess`` module inside latex_to_pdf / pdf_to_png."""
    PIPE = -1
    STDOUT = -2
    DEVNULL = -3

    class TimeoutExpired(Exception):
        pass

    def __init__(self, env):
        self._env = env

    def Popen(self, command, *args, **kwargs):
        return self._env.popen(command, *args, **kwargs)


# ------------------------------------------------------------------------------------------------
# naming model of MakeFilename (from its two docstrings)
# ------------------------------------------------------------------------------------------------
def _format(s, context):
    """Double-brace formatting restricted to the single field {{name}} used by the alphabet.
    Returns None when the context cannot format the string ("a key is not updated")."""
    if "{{name}}" in s:
        if not isinstance(context, dict) or "name" not in context:
            return None
        return s.replace("{{name}}", str(context["name"]))
    return s


def naming_step(context, spec):
    """Apply one MakeFilename(**spec) to *context* (a dict or None for a value without context).
    Returns (new_context, modified). The input is not mutated."""
    import copy
    ctx = copy.deepcopy(context) if context is not None else {}
    fmt_ctx = copy.deepcopy(ctx)
    out = dict(ctx.get("output", {}))
    had_output = "output" in ctx
    overwrite = bool(spec.get("overwrite"))
    modified = False
    # prefix / suffix: always update when they can be formatted; joined with existing ones
    # (prefix before the existing prefix, suffix after the existing suffix) unless overwrite
    if spec.get("prefix") is not None:
        r = _format(spec["prefix"], fmt_ctx)
        if r is not None:
            ex = out.get("prefix")
            out["prefix"] = r + ex if (ex and not overwrite) else r
            modified = True
    if spec.get("suffix") is not None:
        r = _format(spec["suffix"], fmt_ctx)
        if r is not None:
            ex = out.get("suffix")
            out["suffix"] = ex + r if (ex and not overwrite) else r
            modified = True
    # filename: only if absent (or overwrite); consumes pending prefix and suffix exactly once
    if spec.get("filename") is not None:
        if "filename" not in out or overwrite:
            r = _format(spec["filename"], fmt_ctx)
            if r is not None:
                pre = out.get("prefix", "")
                suf = out.get("suffix", "")
                out["filename"] = pre + r + suf
                if pre:
                    del out["prefix"]
                if suf:
                    del out["suffix"]
                modified = True
    for key in ("dirname", "fileext"):
        if spec.get(key) is not None:
            if key not in out or overwrite:
                r = _format(spec[key], fmt_ctx)
                if r is not None:
                    out[key] = r
                    modified = True
    if modified or had_output:
        ctx["output"] = out
    return ctx, modified


def naming_fold(value_has_context, context, specs):
    """Expected final value shape: ("bare",) if never modified and the value had no context,
    else ("ctx", context)."""
    ctx = context if value_has_context else None
    has = value_has_context
    for spec in specs:
        new, modified = naming_step(ctx, spec)
        if modified:
            ctx = new
            has = True
    if not has:
        return ("bare", None)
    return ("ctx", ctx)


def write_path(outdir, outputc, default_filename="output"):
    """Write docstring: output_directory/dirname/filename.fileext; fileext falls back to filetype,
    then "txt"; an empty extension gives no dot."""
    dirname = outputc.get("dirname", "")
    if "fileext" in outputc:
        ext = outputc["fileext"]
    elif "filetype" in outputc:
        ext = outputc["filetype"]
    else:
        ext = "txt"
    filename = outputc.get("filename", default_filename)
    base = filename + "." + ext if ext else filename
    return os.path.join(outdir, dirname, base), filename, ext
