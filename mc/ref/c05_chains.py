"""C05, part A: one analysis chain `pre* acc post*` executed by every driver the statement names.

Everything is differential: the reference outcome is the linear `Sequence(*chain).run(flow)`; every
other driver (explicit FillComputeSeq, explicit FillSeq + compute, the chain as a branch of a Split in
several forms and with every bufsize) is a second real execution over fresh objects and a fresh flow.
No semantics of any lena element is written down here; the only hand-written pieces are the loops
"fill value by value until LenaStopFill, then compute" (the statement's own words) and the
separation of the companion branch's marked results from the chain's results.

Values, flows, `inc`, `even`, `tag`, canonical comparison come from mc.ref.c01c05_common (imported,
not edited); this module adds the factories C05 needs beyond those.
"""
import copy

import lena.core
import lena.flow
import lena.math

from mc.ref import c01c05_common as cm


# ---------------------------------------------------------------------------------------------------
# extra elements

def plus100(value):
    """A second result for the same value, with a context of its own. The copy is taken NOW, from the
    context as the value first had it (a snapshot made when the generator is resumed, or a shallow copy
    that shares nested dictionaries, would let elements further down the chain - which update contexts
    in place - be seen through it, and then run-driven and fill-driven chains differ through this
    helper, not through lena: a fill-driven chain pushes the first result through the whole chain before
    the second one is made)."""
    if cm.is_pair(value):
        return (value[0] + 100, copy.deepcopy(value[1]))
    return value + 100


class Dup(object):
    """A user run element that yields two results per value (so that a RunIf used through
    FillInto has to fill *every* result of its inner sequence)."""

    def run(self, flow):
        for val in flow:
            second = plus100(val)       # before the first result is handed on (see plus100)
            yield val
            yield second


def markB(value):
    """Last element of the companion branch: wraps every result, whatever it is."""
    return ("B", value)


def is_marked(value):
    return isinstance(value, tuple) and len(value) == 2 and value[0] == "B"


_OWN = {
    "RunIf(dup)": lambda: lena.flow.RunIf(cm.even, Dup()),
    "RunIf(drop)": lambda: lena.flow.RunIf(cm.even, lena.flow.Filter(cm.nothing)),
    # selects runs of consecutive values; the inner element depends on how many values one run() of
    # it receives (RunIf documents a run per selected value: Split(bufsize=1))
    "RunIf(nonneg,Reverse)": lambda: lena.flow.RunIf(nonneg, lena.flow.Reverse()),
    # a selector that raises for odd data; raise_on_error=False documents "an exception means not selected"
    "Filter(raising)": lambda: lena.flow.Filter(lena.flow.Selector(raises_on_odd, raise_on_error=False)),
    "markB": lambda: markB,
}


def raises_on_odd(value):
    if cm.data_of(value) % 2:
        raise ValueError("odd")
    return True


def nonneg(value):
    return cm.data_of(value) >= 0


def build(spec):
    if spec in _OWN:
        return _OWN[spec]()
    return cm.build(spec)


def kind_of(spec):
    """Element kind used in causes (arguments dropped, except that a Slice with step > 1 is its own
    kind because its fill_into takes the documented early-stop path)."""
    if spec.startswith("Slice("):
        args = cm.slice_args(spec)
        if len(args) == 3 and args[2] is not None and args[2] > 1:
            return "Slice(step>1)"
        return "Slice"
    if spec.startswith("Filter("):
        return "Filter"
    if spec.startswith("RunIf"):
        return "RunIf"
    if spec in ("inc", "Call(inc)", "tag", "markB"):
        return "callable"
    return spec


# ---------------------------------------------------------------------------------------------------
# alphabets

PRE_QUICK = ["inc", "Variable", "Filter(even)", "Filter(nothing)", "Slice(2)", "Slice(1,3)", "Slice(0)",
             "Slice(1,5,2)", "Slice(1,None)", "RunIf", "RunIf(dup)", "RunIf(drop)", "RunIf(nonneg,Reverse)", "Filter(raising)"]
PRE_THOROUGH = PRE_QUICK + ["Call(inc)", "Slice(0,None,2)", "Slice(None,4,3)"]
ACCS = ["Sum", "DSum", "Mean", "Mean(pass_on_empty)", "VarianceMeanCount",
        "VarianceMeanCount(pass_on_empty)", "FillCompute(Count)", "StoreFilled",
        "StoreFilled(one_by_one)", "GroupBy", "GroupBy(i)", "Histogram"]
POST_SINGLE = ["tag", "Slice(1)", "Filter(nothing)", "Reverse", "Count", "Slice(-1)"]
COMPANION = ["inc", "Sum", "markB"]
CANON_ACC = "StoreFilled(one_by_one)"


def pre_chains(alphabet, maxlen):
    """All pre-processing chains of length 0..maxlen, shortest first."""
    import itertools
    out = []
    for n in range(maxlen + 1):
        for combo in itertools.product(alphabet, repeat=n):
            out.append(list(combo))
    return out


def post_chains(maxlen):
    import itertools
    out = []
    for n in range(maxlen + 1):
        for combo in itertools.product(POST_SINGLE, repeat=n):
            out.append(list(combo))
    return out


def bufsizes(m):
    return list(range(1, m + 2)) + [1000, None]


def split_forms(chain_len):
    forms = ["split-tuple", "split-fcs", "split-first", "split-last"]
    if chain_len == 1:
        forms.append("split-bare")
    return forms


def drivers(chain_len, m, all_bufsizes_for_fcs_form=True):
    """Driver descriptors for one case, in the fixed order of enumeration. The tuple, first, last and
    bare Split forms always get every bufsize; the explicit-FillComputeSeq-object form (which differs
    from the tuple form only in who calls the constructor) gets every bufsize or just {1, None}."""
    out = [{"name": "fcs"}, {"name": "fillseq"}]
    for form in split_forms(chain_len):
        for b in bufsizes(m):
            if form == "split-fcs" and not all_bufsizes_for_fcs_form and b not in (1, None):
                continue
            out.append({"name": form, "bufsize": b})
    return out


# ---------------------------------------------------------------------------------------------------
# the drivers (every call builds fresh objects and a fresh flow)

def _elements(pre, acc, post):
    return [build(s) for s in pre] + [build(acc)] + [build(s) for s in post]


def run_reference(pre, acc, post, kind, m):
    """The linear Sequence run over the flow."""
    def thunk():
        seq = lena.core.Sequence(*_elements(pre, acc, post))
        return seq.run(iter(cm.make_flow(kind, m)))
    return cm.outcome(thunk)


def _fill_until_stop(filled, flow, info):
    for val in flow:
        try:
            filled.fill(val)
        except lena.core.LenaStopFill:
            info["stopped"] = True
            break


_COMPANION_REF = {}


def companion_for(kind):
    """The companion branch computes with the data; for flows with None values one that only stores."""
    return ["StoreFilled", "markB"] if kind == "none" else COMPANION


def companion_reference(kind, m):
    """Canonical result of the companion chain run as a linear Sequence over the flow (kind, m)."""
    key = (kind, m)
    if key not in _COMPANION_REF:
        seq = lena.core.Sequence(*[build(s) for s in companion_for(kind)])
        _COMPANION_REF[key] = cm.canon(list(seq.run(iter(cm.make_flow(kind, m)))))
    return _COMPANION_REF[key]


def run_driver(driver, pre, acc, post, kind, m, info=None):
    """Outcome of one non-reference driver. *info* (a dict) learns whether LenaStopFill was raised
    by the explicit fill loops."""
    if info is None:
        info = {}
    name = driver["name"]
    flow = cm.make_flow(kind, m)

    if name == "fcs":
        def thunk():
            seq = lena.core.FillComputeSeq(*_elements(pre, acc, post))
            _fill_until_stop(seq, flow, info)
            return seq.compute()
        return cm.outcome(thunk)

    if name == "fillseq":
        def thunk():
            els = _elements(pre, acc, post)
            n = len(pre)
            fill_seq = lena.core.FillSeq(*els[:n + 1])
            _fill_until_stop(fill_seq, flow, info)
            return lena.core.Sequence(*els[n + 1:]).run(els[n].compute())
        return cm.outcome(thunk)

    b = driver["bufsize"]
    if name in ("split-tuple", "split-fcs", "split-bare"):
        def thunk():
            els = _elements(pre, acc, post)
            if name == "split-tuple":
                branch = tuple(els)
            elif name == "split-fcs":
                branch = lena.core.FillComputeSeq(*els)
            else:
                branch = els[0]
            return lena.core.Split([branch], bufsize=b).run(iter(flow))
        return cm.outcome(thunk)

    if name in ("split-first", "split-last"):
        # the chain next to a companion branch; the companion's (marked) results are compared with the
        # companion's own linear run, the rest with the chain's reference
        def thunk():
            branch = tuple(_elements(pre, acc, post))
            comp = tuple(build(s) for s in companion_for(kind))
            seqs = [branch, comp] if name == "split-first" else [comp, branch]
            got = list(lena.core.Split(seqs, bufsize=b).run(iter(flow)))
            mine = [v for v in got if not is_marked(v)]
            theirs = [v for v in got if is_marked(v)]
            if cm.canon(theirs) != companion_reference(kind, m):
                # make the difference visible in the outcome of this driver
                mine.append(("companion-branch-differs", theirs))
            return mine
        return cm.outcome(thunk)

    raise ValueError(name)


# ---------------------------------------------------------------------------------------------------
# judging one case, shrinking a failure

def family(driver):
    return "split" if driver["name"].startswith("split") else driver["name"]


def judge(case):
    """(holds, reference outcome, driver outcome, info) for one recorded case."""
    pre, acc, post = case["pre"], case["acc"], case["post"]
    kind, m = case["flow"]
    ref = run_reference(pre, acc, post, kind, m)
    info = {}
    got = run_driver(case["driver"], pre, acc, post, kind, m, info)
    return cm.same(ref, got), ref, got, info


def _simpler(case):
    """Candidate simplifications, most drastic first."""
    pre, post = case["pre"], case["post"]
    kind, m = case["flow"]
    drv = case["driver"]

    def variant(**kw):
        c = dict(case)
        c.update(kw)
        return c

    for i in range(len(pre)):
        yield variant(pre=pre[:i] + pre[i + 1:])
    for i in range(len(post)):
        yield variant(post=post[:i] + post[i + 1:])
    if m > 0:
        d = dict(drv)
        if isinstance(d.get("bufsize"), int) and d["bufsize"] != 1000 and d["bufsize"] > m:
            d["bufsize"] = m
        yield variant(flow=[kind, m - 1], driver=d)
    if kind == "ctx":
        yield variant(flow=["bare", m])
    if case["acc"] != CANON_ACC:
        yield variant(acc=CANON_ACC)
    if drv["name"] in ("split-fcs", "split-first", "split-last", "split-bare"):
        yield variant(driver={"name": "split-tuple", "bufsize": drv["bufsize"]})
    if drv["name"].startswith("split"):
        b = drv["bufsize"]
        if b is None or b == 1000:
            yield variant(driver={"name": drv["name"], "bufsize": m + 1})
        elif b > 1:
            yield variant(driver={"name": drv["name"], "bufsize": b - 1})
    if drv["name"] == "fillseq":
        yield variant(driver={"name": "fcs"})


def shrink(case):
    """Greedy shrink of a failing case; returns a failing case no candidate of which fails."""
    for _ in range(200):
        for cand in _simpler(case):
            if cand["driver"]["name"] == "split-bare" and (cand["pre"] or cand["post"]):
                continue
            if not judge(cand)[0]:
                case = cand
                break
        else:
            return case
    return case


def cause_of(case, ref, got):
    return {"law": "drivers-agree",
            "driver": family(case["driver"]),
            "difference": cm.diff_kind(ref, got),
            "pre": [kind_of(s) for s in case["pre"]],
            "acc": "any" if case["acc"] == CANON_ACC else case["acc"],
            "post": [kind_of(s) for s in case["post"]]}
