"""Reference model for C13 (static context is causal). Pure Python, never imports lena.

Tree specifications (JSON-able):

    leaf   ::= ["S", key, value]      SetContext(key, value); value a constant or a "{{k}}_x" template
             | ["St"]                 StoreContext
             | ["U"]                  UpdateContextFromStatic
             | ["M", key]             MakeFilename(filename="m_{{key}}", dirname="d_{{key}}-{{rt}}") (for a
                                      two-field key the dirname takes its first field); rt is a key that
                                      only a value's run-time context ever holds
             | ["W", key]             Write("w_{{key}}")
             | ["W0", key]            Write("{{key}}") - the directory is the formatted value alone
             | ["C", key]             Cache("c<uid>_{{key}}.pkl")
             | ["D"]                  an ordinary data element (recording pass-through callable)
    node   ::= ["seq", [item...]] | ["src", [item...]] | ["split", [branch...]]
    item   ::= leaf | ["seq", ...] | ["split", ...]
    branch ::= ["t", [item...]]       a tuple of elements (lena turns it into a Sequence)
             | ["bare", leaf]         an element given without a tuple
             | ["acc"]                a bare FillCompute element (has no static context at all)
             | ["src", [item...]]     a Source

The model is the property statement read literally:

  * the context after a sequence is the fold, in document order, of the SetContext updates of its
    elements, starting from the context the sequence was given; a template is resolved against
    the context *before* the element; an unresolvable template makes the context of the sequence
    (and of everything that encloses it) an error naming the key;
  * every other leaf leaves the context as it is and "sees" the context before it;
  * a Split gives every branch its own copy of the context before it and exports the
    intersection of the branches' contexts.  The statement does not say what the context of a
    branch without any static context (a bare accumulator, a bare callable) is: it is read both
    as "does not take part" and as "the context it was handed"; both results are accepted.  With
    no branch taking part the Split is transparent.

The fold is therefore set-valued: every position maps to the set of contexts the statement
allows (almost always one).  An outcome is ("ok", json-string-of-context) or ("err", key).
"""
import itertools
import json

STATIC_TOP_KEYS = ("Ka", "Kb", "Kn")
NODE_KINDS = ("seq", "src", "split")
CONSUMERS = ("St", "U", "M", "W", "W0", "C")


# ---- plain dictionary helpers (own implementations) -------------------------------------------

def enc(ctx):
    return json.dumps(ctx, sort_keys=True)


def dec(s):
    return json.loads(s)


def lookup(ctx, dotted):
    """Value at a dotted path or KeyError(first missing component)."""
    cur = ctx
    for part in dotted.split("."):
        if not isinstance(cur, dict) or part not in cur:
            raise KeyError(part)
        cur = cur[part]
    return cur


def template_fields(value):
    """Field names of a "{{k}}" template, in order; [] for constants."""
    if not isinstance(value, str) or "{{" not in value:
        return []
    out = []
    rest = value
    while "{{" in rest:
        a = rest.index("{{")
        b = rest.index("}}", a)
        out.append(rest[a + 2:b])
        rest = rest[b + 2:]
    return out


def render(value, ctx):
    """Constant, or template with every {{k}} replaced by str(ctx[k]). KeyError(component) if missing."""
    fields = template_fields(value)
    if not fields:
        return value
    out = value
    for f in fields:
        out = out.replace("{{" + f + "}}", str(lookup(ctx, f)), 1)
    return out


def merge(d, other):
    """Recursive update of d with other (sub-dictionaries are merged, everything else replaced)."""
    for k, v in other.items():
        if isinstance(v, dict) and isinstance(d.get(k), dict):
            merge(d[k], v)
        elif isinstance(v, dict):
            d[k] = json.loads(json.dumps(v))
        else:
            d[k] = v
    return d


def set_dotted(ctx, dotted, value):
    parts = dotted.split(".")
    upd = value
    for p in reversed(parts):
        upd = {p: upd}
    return merge(ctx, upd)


def intersect(dicts):
    """Items contained in all dicts, recursively."""
    first = dicts[0]
    out = {}
    for k, v in first.items():
        if not all(k in d for d in dicts[1:]):
            continue
        vals = [d[k] for d in dicts]
        if all(isinstance(x, dict) for x in vals):
            out[k] = intersect(vals)
        elif all((not isinstance(x, dict)) and type(x) is type(v) and x == v for x in vals):
            out[k] = v
    return out


def prune_empty(ctx):
    """Drop empty sub-dictionaries (whether an intersection keeps them is not stated)."""
    if not isinstance(ctx, dict):
        return ctx
    out = {}
    for k, v in ctx.items():
        if isinstance(v, dict):
            v = prune_empty(v)
            if not v:
                continue
        out[k] = v
    return out


# ---- tree helpers -----------------------------------------------------------------------------

def is_node(x):
    return x[0] in NODE_KINDS


def children(node):
    """List of (index, child, is_branch)."""
    return list(enumerate(node[1]))


def walk(tree, path=()):
    """Document-order list of (path, spec) for every leaf, node, and branch wrapper."""
    out = [(path, tree)]
    kind = tree[0]
    if kind in ("seq", "src", "split", "t"):
        for i, ch in enumerate(tree[1]):
            out.extend(walk(ch, path + (i,)))
    elif kind == "bare":
        out.extend(walk(tree[1], path + (0,)))
    return out


def leaves(tree):
    return [(p, s) for p, s in walk(tree) if s[0] not in ("seq", "src", "split", "t", "bare")]


def nodes(tree):
    return [(p, s) for p, s in walk(tree) if s[0] in NODE_KINDS]


def prune(tree, path):
    """The tree reduced to what encloses and precedes the position *path*: in every enclosing
    sequence the earlier items (whole) and the item on the path; in every enclosing Split only the
    branch on the path. The item at *path* itself is kept whole."""
    if not path:
        return tree
    kind = tree[0]
    i = path[0]
    if kind in ("seq", "src", "t"):
        kept = list(tree[1][:i]) + [prune(tree[1][i], path[1:])]
        return [kind, kept]
    if kind == "split":
        return ["split", [prune(tree[1][i], path[1:])]]
    if kind == "bare":
        return ["bare", prune(tree[1], path[1:])]
    raise ValueError("cannot descend into %r" % (tree,))


def prune_path(tree, path):
    """Path of the same position inside prune(tree, path)."""
    out = []
    cur = tree
    for i in path:
        kind = cur[0]
        if kind == "split":
            out.append(0)
            cur = cur[1][i]
        elif kind == "bare":
            out.append(0)
            cur = cur[1]
        else:
            out.append(i)
            cur = cur[1][i]
    return tuple(out)


def _all_leaf_paths(spec, base):
    return [base + p for p, _ in leaves(spec)]


def kept_leaf_paths(tree, path, base=()):
    """Original paths of the leaves that survive prune(tree, path)."""
    if not path:
        return _all_leaf_paths(tree, base)
    kind = tree[0]
    i = path[0]
    if kind in ("seq", "src", "t"):
        out = []
        for j in range(i):
            out.extend(_all_leaf_paths(tree[1][j], base + (j,)))
        return out + kept_leaf_paths(tree[1][i], path[1:], base + (i,))
    if kind == "split":
        return kept_leaf_paths(tree[1][i], path[1:], base + (i,))
    if kind == "bare":
        return kept_leaf_paths(tree[1], path[1:], base + (0,))
    raise ValueError("cannot descend into %r" % (tree,))


def outside_prefix(tree, path):
    """Leaves that are neither before *path* in an enclosing sequence nor inside the item at
    *path* (i.e. later elements and sibling branches)."""
    keep = set(kept_leaf_paths(tree, path))
    return [(p, s) for p, s in leaves(tree) if p not in keep]


# ---- the fold ---------------------------------------------------------------------------------

class Fold(object):
    """seen[path]  = set of outcomes the element at *path* may have been given;
       after[path] = set of outcomes a node exports."""

    def __init__(self, tree, external=None):
        self.seen = {}
        self.after = {}
        start = {("ok", enc(external or {}))}
        self.root_out = self._item(tree, (), start)

    def _record(self, table, path, outs):
        table.setdefault(path, set()).update(outs)

    def _item(self, spec, path, ins):
        kind = spec[0]
        self._record(self.seen, path, ins)
        if kind in ("seq", "src", "t"):
            cur = ins
            for i, ch in enumerate(spec[1]):
                cur = self._item(ch, path + (i,), cur)
            outs = cur
        elif kind == "bare":
            outs = self._item(spec[1], path + (0,), ins)
        elif kind == "split":
            outs = set()
            for one in sorted(ins):
                outs |= self._split(spec, path, one)
        elif kind == "S":
            outs = set()
            for one in sorted(ins):
                if one[0] == "err":
                    outs.add(one)
                    continue
                ctx = dec(one[1])
                try:
                    val = render(spec[2], ctx)
                except KeyError as e:
                    outs.add(("err", e.args[0]))
                    continue
                outs.add(("ok", enc(set_dotted(ctx, spec[1], val))))
        else:
            outs = ins
        if kind in NODE_KINDS:
            self._record(self.after, path, outs)
        return outs

    def _split(self, spec, path, one):
        if one[0] == "err":
            for i, br in enumerate(spec[1]):
                self._item_branch(br, path + (i,), {one})
            return {one}
        per_branch = []   # (takes_part, set of outcomes) ; takes_part in (True, "either")
        for i, br in enumerate(spec[1]):
            outs = self._item_branch(br, path + (i,), {one})
            if br[0] == "acc" or (br[0] == "bare" and br[1][0] != "S"):
                per_branch.append(("either", outs))
            else:
                per_branch.append((True, outs))
        results = set()
        for include_transparent in (False, True):
            parts = [outs for flag, outs in per_branch if flag is True or include_transparent]
            if not parts:
                results.add(one)
                continue
            for combo in itertools.product(*[sorted(p) for p in parts]):
                err = [c for c in combo if c[0] == "err"]
                if err:
                    results.add(err[0])
                    continue
                results.add(("ok", enc(intersect([dec(c[1]) for c in combo]))))
        return results

    def _item_branch(self, br, path, ins):
        if br[0] == "acc":
            self._record(self.seen, path, ins)
            return ins
        return self._item(br, path, ins)


def definite(outs):
    """The contexts if no outcome is an error, else None."""
    if any(o[0] == "err" for o in outs):
        return None
    return [dec(o[1]) for o in sorted(outs)]


# ---- what a consumer derives from a context ---------------------------------------------------

# Run-time contexts of the values a consumer that works on values (MakeFilename,
# UpdateContextFromStatic) is probed with, in this order, through ONE element object: no context at all,
# a key no static context ever holds, keys that static contexts hold too - at the top level and inside a
# sub-dictionary - (the run-time context has higher precedence, says MakeFilename), and no context again
# (what earlier values brought is gone).
M_PROBES = [{}, {"rt": 7}, {"Ka": "r", "Kn": {"a": "r"}}, {}]
# UpdateContextFromStatic: only keys that no static context holds (which side wins is not C13's matter)
U_PROBES = [{}, {"rt": 7}, {}]


def _copy(x):
    return json.loads(json.dumps(x))


def _name(leaf, ctx):
    """The name a one- or two-field template gives against *ctx*; None when a field is unresolvable
    (nothing derived)."""
    kind = leaf[0]
    try:
        body = "-".join(str(lookup(ctx, k)) for k in leaf[1].split("+"))
    except KeyError:
        return None
    return {"M": "m_", "W": "w_", "W0": "", "C": "c_"}[kind] + body + (".pkl" if kind == "C" else "")


def _dirname(leaf, ctx):
    """The second field of a MakeFilename: its template takes one key from the static context and the
    key rt, which only a value brings."""
    try:
        return "d_" + str(lookup(ctx, leaf[1].split("+")[0])) + "-" + str(lookup(ctx, "rt"))
    except KeyError:
        return None


def expected_observations(leaf, ctx):
    """Every observation (in the form of c13_build.observe_leaf) the statement and the docstrings allow
    for the consumer *leaf* that was given the static context *ctx*."""
    kind = leaf[0]
    if kind == "U":
        # the static context arrives in every value's context, the value's own keys stay
        return [[merge(_copy(r), _copy(ctx)) for r in U_PROBES]]
    if kind == "M":
        # "Formatting context is retrieved from static context and from the context part of the value.
        # The run-time context has higher precedence": whether a run-time sub-dictionary replaces the
        # static one or is merged into it is not said - both readings, each for both fields of the
        # element; nothing but *output* is added to the value's context
        per_probe = []
        for r in M_PROBES:
            shallow = _copy(ctx)
            shallow.update(_copy(r))
            deep = merge(_copy(ctx), _copy(r))
            opts = []
            for full in (shallow, deep):
                one = [_name(leaf, full), _dirname(leaf, full), _copy(r)]
                if one not in opts:
                    opts.append(one)
            per_probe.append(opts)
        return [list(combo) for combo in itertools.product(*per_probe)]
    return [expected_observation(leaf, ctx)]


def expected_observation(leaf, ctx):
    kind = leaf[0]
    if kind == "St":
        return ctx
    if kind in ("W", "W0", "C"):
        # a key "Ka+Kb" stands for the two-field template "{{Ka}}-{{Kb}}": derived only when both
        # fields can be resolved
        return _name(leaf, ctx)
    raise ValueError(leaf)


# ---- run-time model (law 4) -------------------------------------------------------------------

def project(ctx):
    """The part of a run-time context that lies under a static top-level key."""
    return {k: v for k, v in ctx.items() if k in STATIC_TOP_KEYS}


class RunModel(object):
    """Follows the data paths of the tree. Flows are lists of [data, projected context]. The static
    context of each UpdateContextFromStatic is an *input* (what that element itself reports),
    so this model states only: nothing but UpdateContextFromStatic moves static keys into the
    run-time context, and every value has its own copy of what was moved (a data element that
    writes its value's data under a static sub-dictionary changes that value's context only)."""

    INPUT = ((0, {}), (1, {}))

    def __init__(self, tree, ucfs_static, src_data=None):
        self.ucfs_static = ucfs_static
        self.src_data = src_data or {}
        self.probe_logs = {}
        kind = tree[0]
        start = [] if kind == "src" else [[d, dict(c)] for d, c in self.INPUT]
        self.outputs = [c for _, c in self._item(tree, (), start)]

    def _copy(self, flow):
        return [[d, json.loads(json.dumps(c))] for d, c in flow]

    def _item(self, spec, path, flow):
        kind = spec[0]
        if kind in ("seq", "t"):
            for i, ch in enumerate(spec[1]):
                flow = self._item(ch, path + (i,), flow)
            return flow
        if kind == "src":
            flow = [[d, {}] for d in self.src_data[path]]   # its own flow, whatever comes in
            for i, ch in enumerate(spec[1]):
                flow = self._item(ch, path + (i,), flow)
            return flow
        if kind == "bare":
            return self._item(spec[1], path + (0,), flow)
        if kind == "acc":
            return []
        if kind == "split":
            if not spec[1]:
                return flow
            out = []
            for i, br in enumerate(spec[1]):
                out.extend(self._item(br, path + (i,), self._copy(flow)))
            return out
        if kind in ("S", "St"):
            return flow
        if kind == "U":
            return [[d, merge(c, json.loads(json.dumps(self.ucfs_static[path])))] for d, c in flow]
        if kind == "D":
            for d, c in flow:
                if isinstance(c.get("Kn"), dict):
                    c["Kn"]["w"] = d
            self.probe_logs.setdefault(path, []).extend(c for _, c in self._copy(flow))
            return flow
        return flow   # M, W, C do not touch static keys


def multiset(ctxs):
    return sorted(enc(project(c)) for c in ctxs)
