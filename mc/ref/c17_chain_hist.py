"""Helper of the C17 check: histories of calls of ONE chain object over ONE tuple of iterables.

"Chain equals itertools.chain" is a statement about an object that can be called again and about arguments
that the caller still owns. A program may call the same Chain several times, may leave a call before its end
(it takes some values and then closes the iterator, drops it, or keeps it suspended; or one of the iterables
raises and the caller handles that), and may go on using the iterables themselves afterwards.
itertools.chain(*iterables) in the place of every call fixes what must be seen: it touches its arguments
only by iter() and next(), so whatever a one-shot iterable has not yet given is still there for the next
call, for an older suspended call and for the owner of the iterable.

Nothing here knows how lena implements anything: `run_history` drives whatever `make(iterables)` returns
(a callable that gives a new iterator per call); the check runs it once with ``lambda: itertools.chain(*its)``
and once with ``lena.flow.Chain(*its)`` over equally built iterables and compares the two records.

A history
---------
    lengths  the numbers of values of the iterables;
    kinds    one kind name per iterable (KINDS below);
    fail     None or (a, j): iterable a raises Boom instead of giving its value j (only kinds in CAN_FAIL);
    steps    a list of (take, ending): a call from which the consumer asks for *take* values (it stops earlier
             at StopIteration or at an exception, which also ends the call) and then
               "keep"  keeps the iterator suspended (all kept ones are read to the end after the last call),
               "close" calls its close() if it has one (a generator has, itertools.chain has not) and drops it,
               "drop"  only drops it (CPython finalises a suspended generator at once);
    then calls that are read to their end (a second one if the first ended with an exception), then the kept
    iterators are read to their end, then what each iterable still gives to its owner (list(iterable)).

The record holds every value obtained, how every call ended (by exception TYPE only), and the events the
iterables themselves saw (iter() of a re-iterable object, every value made, normal end, GeneratorExit).
"""


class Boom(Exception):
    """The exception of a failing iterable."""


ENDINGS = ("keep", "close", "drop")
KINDS = ("list", "tuple", "iter", "generator", "map", "iterobj", "reiterable")
ONE_SHOT = ("iter", "generator", "map", "iterobj")
CAN_FAIL = ("generator", "map", "iterobj", "reiterable")


def _value(a, i):
    return ("c", a, i)


def _generator(a, n, fail_j, log):
    try:
        for i in range(n):
            if i == fail_j:
                log.append(("fail", a, i))
                raise Boom(a, i)
            log.append(("make", a, i))
            yield _value(a, i)
        log.append(("end", a))
    except GeneratorExit:
        log.append(("exit", a))
        raise


class _IterObj(object):
    """A one-shot iterator that is not a generator; after a failure it goes on with the next value."""

    def __init__(self, a, n, fail_j, log):
        self.a, self.n, self.fail_j, self.log, self.i = a, n, fail_j, log, 0

    def __iter__(self):
        return self

    def __next__(self):
        i = self.i
        if i >= self.n:
            self.log.append(("end", self.a))
            raise StopIteration
        self.i = i + 1
        if i == self.fail_j:
            self.log.append(("fail", self.a, i))
            raise Boom(self.a, i)
        self.log.append(("make", self.a, i))
        return _value(self.a, i)


class _Reiterable(object):
    """Every iter() starts a new generator over all the values."""

    def __init__(self, a, n, fail_j, log):
        self.a, self.n, self.fail_j, self.log = a, n, fail_j, log

    def __iter__(self):
        self.log.append(("iter", self.a))
        return _generator(self.a, self.n, self.fail_j, self.log)


def build(lengths, kinds, fail, log):
    """New iterables for one execution of a history."""
    out = []
    for a, (n, kind) in enumerate(zip(lengths, kinds)):
        fail_j = fail[1] if fail is not None and fail[0] == a else None
        values = [_value(a, i) for i in range(n)]
        if kind == "list":
            it = values
        elif kind == "tuple":
            it = tuple(values)
        elif kind == "iter":
            it = iter(values)
        elif kind == "generator":
            it = _generator(a, n, fail_j, log)
        elif kind == "map":
            def f(v, fail_j=fail_j, log=log):
                if v[2] == fail_j:
                    log.append(("fail", v[1], v[2]))
                    raise Boom(v[1], v[2])
                log.append(("make", v[1], v[2]))
                return v
            it = map(f, values)
        elif kind == "iterobj":
            it = _IterObj(a, n, fail_j, log)
        elif kind == "reiterable":
            it = _Reiterable(a, n, fail_j, log)
        else:
            raise ValueError(kind)
        out.append(it)
    return out


def _read(it, take, got):
    """Ask *it* for *take* values (None: all). Returns how the reading ended."""
    n = 0
    while take is None or n < take:
        try:
            v = next(it)
        except StopIteration:
            return "stop"
        except Exception as e:      # exceptions are compared by type only
            return "raised " + type(e).__name__
        got.append(v)
        n += 1
    return "taken"


def run_history(make, lengths, kinds, fail, steps):
    """Execute one history; returns (record, left_early) where record is a list of labelled observations
    and left_early tells whether some call was left although it could have given more values."""
    log = []
    record = []
    left_early = False
    try:
        its = build(lengths, kinds, fail, log)
        call = make(its)
        kept = []
        for idx, (take, ending) in enumerate(steps):
            it = iter(call())
            got = []
            how = _read(it, take, got)
            record.append(("call %d" % idx, got, how, len(log)))
            if how == "taken":
                left_early = True
            if how.startswith("raised"):
                ending = "drop"     # an iterator that raised is not used again (a generator is finished,
                                    # itertools.chain is not: the statement does not say which is right)
            if ending == "keep":
                kept.append(it)
            elif ending == "close":
                close = getattr(it, "close", None)
                if close is not None:
                    close()
            del it
            record.append(("after call %d" % idx, len(log)))
        for idx in range(2):
            got = []
            how = _read(iter(call()), None, got)
            record.append(("full call %d" % idx, got, how))
            if how == "stop":
                break
        for idx, it in enumerate(kept):
            got = []
            how = _read(it, None, got)
            record.append(("kept iterator %d resumed" % idx, got, how))
        for a, arg in enumerate(its):
            got = []
            how = _read(iter(arg), None, got)
            record.append(("rest of iterable %d" % a, got, how))
        record.append(("events seen by the iterables", list(log)))
    except Exception as e:
        record.append(("history raised", type(e).__name__))
    return record, left_early


def first_difference(rec_a, rec_b):
    """Label of the first observation in which two records differ (None: equal)."""
    for x, y in zip(rec_a, rec_b):
        if x != y:
            return x[0] if x[0] == y[0] else "%s / %s" % (x[0], y[0])
    if len(rec_a) != len(rec_b):
        return "number of observations"
    return None
