"""Container types of the arguments of the nested-dictionary functions (C07), and the string forms
of update_recursively's *other*.

"Nested dictionary" in lena means ``isinstance(x, dict)``: intersection documents that it "returns a
dictionary or its subtype (copied from dicts[0])", and lena ships a subtype of its own
(lena.context.Context, which the Context() element puts around every context of a flow). A law of
C07 therefore holds whatever dict type the arguments are made of. This module builds the same
prototype value out of several dict types and provides the observations that do not stop at a
subtype (plain form, id-graph of mutable containers, canonical form that keeps container types).

Nothing here looks at how lena implements its functions.
"""
import collections


class PlainSub(dict):
    """A user's subclass of dict without any behaviour of its own."""


# Subtypes of dict the arguments are made of. The last two are the standard library's dictionary with the
# ``__missing__`` hook (collections.defaultdict with the factories dict and int): *item access* with an
# absent key does not raise KeyError there, it creates the item (value {} or 0 - both are values of the
# families) in the dictionary. Which items such a dictionary holds - and so what is contained in it - is
# what ``in``, iteration and ``==`` say; looking into it must not change it.
# Not in the alphabet: subtypes whose __missing__ answers without storing (collections.Counter). Whether
# an absent key "with a default" counts as an item of such a dictionary is an open point (Counter's own
# == says that it does), so no reading is demanded there.
KINDS = ("Context", "subclass", "OrderedDict", "defaultdict-dict", "defaultdict-int")
MISSING_HOOK_KINDS = ("defaultdict-dict", "defaultdict-int")
DEPTHS = ("top", "all")          # only the outermost dictionary / every nested dictionary too
POSITIONS = ((1,), (2,), (1, 2))  # which arguments are of the type (the others are plain dicts)


def _cls(kind):
    """A function without arguments that makes a new empty dictionary of the type *kind*."""
    if kind == "defaultdict-dict":
        return lambda: collections.defaultdict(dict)
    if kind == "defaultdict-int":
        return lambda: collections.defaultdict(int)
    if kind == "Context":
        from lena.context import Context
        return Context
    if kind == "subclass":
        return PlainSub
    if kind == "OrderedDict":
        return collections.OrderedDict
    if kind == "dict":
        return dict
    raise ValueError(kind)


def wrap(proto, kind, depth):
    """A fresh value equal to the plain prototype *proto* whose outermost dictionary (depth 'top')
    or every dictionary (depth 'all') is of the type *kind*; it shares nothing with *proto*.
    Key order is the prototype's."""
    cls = _cls(kind)

    def build(v, top):
        if type(v) is dict:
            items = [(k, build(w, False)) for k, w in v.items()]
            if top or depth == "all":
                out = cls()
                for k, w in items:
                    out[k] = w
                return out
            return dict(items)
        if type(v) is list:
            return [build(w, False) for w in v]
        return v
    return build(proto, True)


def has_nested_dict(proto):
    return any(isinstance(v, dict) for v in proto.values())


def variants(p1, p2, kinds=KINDS):
    """All (kind, depth, positions) that give different arguments for the prototypes p1, p2,
    simplest first (depth 'all' is dropped where no typed argument has a nested dictionary)."""
    out = []
    for kind in kinds:
        for depth in DEPTHS:
            for pos in POSITIONS:
                if depth == "all" and not any(has_nested_dict(p) for i, p in ((1, p1), (2, p2))
                                              if i in pos):
                    continue
                out.append((kind, depth, pos))
    return out


def plain(x, _stack=()):
    """Deep conversion to plain dict / list (subtypes followed); a container that contains itself
    is cut with a marker instead of recursing for ever."""
    if isinstance(x, dict):
        if id(x) in _stack:
            return "<cycle>"
        st = _stack + (id(x),)
        return {k: plain(v, st) for k, v in x.items()}
    if isinstance(x, list):
        if id(x) in _stack:
            return "<cycle>"
        st = _stack + (id(x),)
        return [plain(v, st) for v in x]
    return x


_SCALARS = frozenset([int, bool, float, str, type(None)])   # exact types that hold nothing (speed only)


def containers(x, acc=None):
    """id -> object for every dict and list (subtypes included) reachable from x (x included)."""
    if acc is None:
        acc = {}
    t = type(x)
    if t in _SCALARS or id(x) in acc:
        return acc
    if t is dict or isinstance(x, dict):
        acc[id(x)] = x
        for v in x.values():
            containers(v, acc)
    elif t is list or isinstance(x, list):
        acc[id(x)] = x
        for v in x:
            containers(v, acc)
    return acc


def tcanon(x, _stack=()):
    """Canonical hashable form that keeps the types of containers and of leaves apart and ignores
    key order; cycle-safe."""
    if isinstance(x, dict):
        if id(x) in _stack:
            return ("cycle",)
        st = _stack + (id(x),)
        return (type(x).__name__,) + tuple(sorted((k, tcanon(v, st)) for k, v in x.items()))
    if isinstance(x, list):
        if id(x) in _stack:
            return ("cycle",)
        st = _stack + (id(x),)
        return (type(x).__name__,) + tuple(tcanon(v, st) for v in x)
    return (type(x).__name__, repr(x))


# -- string forms of *other* ----------------------------------------------------------------------

def key_strings(keys, maxlen):
    """All dot-separated strings of 1..maxlen non-empty components from *keys*, shortest first."""
    import itertools
    out = []
    for n in range(1, maxlen + 1):
        for combo in itertools.product(keys, repeat=n):
            out.append(".".join(combo))
    return out


def denoted(s, value):
    """The dictionary that the string *s* with the explicit *value* denotes: "the value becomes the
    value of the deepest key represented by s"."""
    out = value
    for k in reversed(s.split(".")):
        out = {k: out}
    return out


def denoted_novalue(s):
    """Without an explicit value the last dot-separated part is the value ("a.b.c d" is
    {'a': {'b': 'c d'}})."""
    parts = s.split(".")
    return denoted(".".join(parts[:-1]), parts[-1])
