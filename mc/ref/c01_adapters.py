"""C01: objects made by lena's adapters (Call, FillCompute, Run, FillRequest, FillInto, SourceEl) as
arguments of Sequence / Source, and the selectors of the RunIf law.

An adapter object is judged like any other argument, by what it offers (Sequence and Run docstrings):
a callable *run* method -> a run element, meaning its own run; callable -> a per-value map; callable
*fill* and *compute* -> fill the whole flow, then compute; nothing of these -> it cannot be converted
to an element and must be rejected with LenaTypeError when the sequence is constructed.
Nothing of lena's control flow is copied; every factory returns brand new objects.
"""
import copy

import lena.core
import lena.flow
import lena.math

from mc.ref import c01c05_common as cm


# ---------------------------------------------------------------------------------------------------
# user objects behind the adapters (method names that the adapters must be told)

class _Other(object):
    """Not callable; Call(obj, call="other") calls this method."""

    def other(self, value):
        return cm.plus10(value)


class _PutGet(object):
    """An accumulator whose methods are not called fill / compute."""

    def __init__(self):
        self.n = 0

    def put(self, value):
        self.n += 1

    def get(self):
        yield ("put", self.n)


class _FillRequestEl(object):
    """fill and request only: FillCompute(el) is documented to take *request* for *compute*."""

    def __init__(self):
        self.n = 0

    def fill(self, value):
        self.n += 1

    def request(self):
        yield ("requested", self.n)


def _again(value):
    """An equal value that shares nothing mutable with *value* (contexts stay private to one value:
    an element that writes into the context of a value must not be seen through another one)."""
    if cm.is_pair(value):
        return (value[0], copy.deepcopy(value[1]))
    return value


class _Go(object):
    """A run element whose method is not called run."""

    def go(self, flow):
        for value in flow:
            yield value
            yield cm.inc(_again(value))


def _doubler(flow):
    """A generator function for Run(None, run=f)."""
    for value in flow:
        yield value
        yield _again(value)


class _IntoOther(object):
    """Has a fill_into-like method under another name."""

    def into(self, element, value):
        element.fill(value)


# ---------------------------------------------------------------------------------------------------
# adapter objects that ARE elements (accepted; fold() gives their meaning by what they offer)

ACCEPTED = {
    "Call(obj,call=other)": lambda: lena.core.Call(_Other(), call="other"),
    "FillCompute(Sum)": lambda: lena.core.FillCompute(lena.math.Sum()),
    "FillCompute(obj,fill=put,compute=get)":
        lambda: lena.core.FillCompute(_PutGet(), fill="put", compute="get"),
    "FillCompute(fill+request obj)": lambda: lena.core.FillCompute(_FillRequestEl()),
    "Run(inc)": lambda: lena.core.Run(cm.inc),
    "Run(FillCompute(Count))": lambda: lena.core.Run(lena.core.FillCompute(lena.flow.Count())),
    "Run(None,run=genfunc)": lambda: lena.core.Run(None, run=_doubler),
    "Run(obj,run=go)": lambda: lena.core.Run(_Go(), run="go"),
    "FillRequest(Sum,2,reset,buffer_input)":
        lambda: lena.core.FillRequest(lena.math.Sum(), bufsize=2, reset=True, buffer_input=True),
    "FillRequest(Sum,2,buffer_output,yield_on_remainder)":
        lambda: lena.core.FillRequest(lena.math.Sum(), bufsize=2, reset=False, buffer_output=True,
                                      yield_on_remainder=True),
    "FillRequest(Slice(1),2,buffer_input)":
        lambda: lena.core.FillRequest(lena.flow.Slice(1), bufsize=2, buffer_input=True),
}
ACCEPTED_ORDER = sorted(ACCEPTED)

# adapter objects that are NOT elements of a Sequence: nothing but fill_into
REJECTED = {
    "FillInto(inc)": lambda: lena.core.FillInto(cm.inc),
    "FillInto(Filter(even))": lambda: lena.core.FillInto(lena.flow.Filter(cm.even)),
    "FillInto(RunIf)": lambda: lena.core.FillInto(lena.flow.RunIf(cm.even, cm.plus10)),
    "FillInto(obj,fill_into=into)": lambda: lena.core.FillInto(_IntoOther(), fill_into="into"),
}

# SourceEl objects are callable - but without an argument. Whether such a thing "can be converted to
# an element" the statement leaves open (R2): rejected with LenaTypeError by the constructor, or
# taken as a callable (whose call with a value then fails with whatever Python raises - not with a
# LenaTypeError, which belongs to the constructor).
OPEN = {
    "SourceEl(list)": lambda: lena.core.SourceEl([7, 8]),
    "SourceEl(callable)": lambda: lena.core.SourceEl(lambda: iter([7, 8])),
}


# ---------------------------------------------------------------------------------------------------
# nested sequences of the OTHER kinds (law "seqkinds"). A FillComputeSeq offers fill and compute and is
# therefore ONE fill/compute element of the Sequence that holds it: its stream transformation is the one
# of the standalone object (fill the whole flow into it, then compute) - whatever its parts would do
# one by one. Pre-elements of every kind: plain callable, Filter / Slice (run and fill_into), an
# accumulator cast to FillInto as the FillComputeSeq docstring advises, an accumulator left as it is
# (Count: fill_into, fill and compute), a user object behind FillInto with a renamed method; with and
# without elements after the FillCompute element; a FillComputeSeq inside a FillComputeSeq.

def _fcs(*args):
    return lena.core.FillComputeSeq(*args)


NESTED = {
    "FillComputeSeq(Sum)": lambda: _fcs(lena.math.Sum()),
    "FillComputeSeq(inc,Sum)": lambda: _fcs(cm.inc, lena.math.Sum()),
    "FillComputeSeq(Sum,inc)": lambda: _fcs(lena.math.Sum(), cm.inc),
    "FillComputeSeq(FillInto(Count),StoreFilled)":
        lambda: _fcs(lena.core.FillInto(lena.flow.Count()), lena.flow.StoreFilled()),
    "FillComputeSeq(FillInto(Count),Sum,inc)":
        lambda: _fcs(lena.core.FillInto(lena.flow.Count()), lena.math.Sum(), cm.inc),
    "FillComputeSeq(Count,Sum)": lambda: _fcs(lena.flow.Count(), lena.math.Sum()),
    "FillComputeSeq(FillInto(obj,fill_into=into),Sum,inc)":
        lambda: _fcs(lena.core.FillInto(_IntoOther(), fill_into="into"), lena.math.Sum(), cm.inc),
    "FillComputeSeq(Filter(even),Slice(1,3),Sum)":
        lambda: _fcs(lena.flow.Filter(cm.even), lena.flow.Slice(1, 3), lena.math.Sum()),
    "FillComputeSeq(FillComputeSeq(inc,Sum),inc)":
        lambda: _fcs(_fcs(cm.inc, lena.math.Sum()), cm.inc),
}
NESTED_ORDER = sorted(NESTED)

# a FillSeq offers fill only (no run, not callable, no compute): it is not an element of a Sequence
REJECTED_SEQS = {
    "FillSeq(Sum)": lambda: lena.core.FillSeq(lena.math.Sum()),
    "FillSeq(inc,StoreFilled)": lambda: lena.core.FillSeq(cm.inc, lena.flow.StoreFilled()),
    "FillSeq(FillInto(Count),Sum)":
        lambda: lena.core.FillSeq(lena.core.FillInto(lena.flow.Count()), lena.math.Sum()),
}


def build(spec):
    """A fresh element for *spec*: an accepted adapter object or anything of the common vocabulary."""
    if spec in ACCEPTED:
        return ACCEPTED[spec]()
    if spec in NESTED:
        return NESTED[spec]()
    return cm.build(spec)


# ---------------------------------------------------------------------------------------------------
# selectors of the RunIf law: name -> (factory of the argument given to RunIf, predicate on a value
# written by hand). All predicates are total (None is data like any other and is not selected, except
# by "all").

def _data(value):
    return cm.data_of(value)


def _isnum(value):
    return isinstance(_data(value), int)


def sel_even(value):
    return _isnum(value) and _data(value) % 2 == 0


def sel_nonneg(value):
    return _isnum(value) and _data(value) >= 0


def sel_neg(value):
    return _isnum(value) and _data(value) < 0


def sel_big(value):
    return _isnum(value) and _data(value) >= 2


def sel_ends(value):
    return sel_neg(value) or sel_big(value)


def sel_all(value):
    return True


def sel_none(value):
    return False


SELECTORS = {
    # isolated selected values (in flows -1, 0, 1, 2, ...)
    "even": (lambda: sel_even, sel_even),
    # one run of consecutive selected values at the end of the flow
    "nonneg": (lambda: sel_nonneg, sel_nonneg),
    # two runs with not selected values in between
    "ends": (lambda: sel_ends, sel_ends),
    "all": (lambda: sel_all, sel_all),
    "none": (lambda: sel_none, sel_none),
    # the other documented forms of a selector: a class (type of the data part), a Selector object,
    # a list (or), a tuple (and)
    "int": (lambda: int, _isnum),
    "Selector(nonneg)": (lambda: lena.flow.Selector(sel_nonneg), sel_nonneg),
    "[neg, big]": (lambda: [sel_neg, sel_big], sel_ends),
    "(nonneg, even)": (lambda: (sel_nonneg, sel_even), lambda v: sel_nonneg(v) and sel_even(v)),
}
SELECTOR_ORDER = ["even", "nonneg", "ends", "all", "none", "int", "Selector(nonneg)", "[neg, big]",
                  "(nonneg, even)"]
