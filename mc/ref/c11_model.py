"""Reference model and alphabet builders for C11 (SplitIntoBins / IterateBins / MapBins).

Nothing here imports the implementation's routing or mapping code: the cell of an argument is
``bisect_right(edges, x) - 1`` per axis, cells are enumerated with ``itertools.product`` and nested
bins are walked with plain indexing.  lena is used only to *build* the analyses that are handed to
the element under test and, for the per-cell oracle, to run a private copy of such an analysis
(``FillComputeSeq(...).fill / .compute``) - which is what the property statement refers to.
"""
import bisect
import copy
import itertools

import lena.core
import lena.flow
import lena.math
import lena.structures
import lena.variables


# ---------------------------------------------------------------------------------------------
# geometry
# ---------------------------------------------------------------------------------------------

def axes_of(edges):
    """List of one-dimensional edge arrays (1-d edges are a flat list of numbers)."""
    if isinstance(edges[0], (list, tuple)):
        return [list(a) for a in edges]
    return [list(edges)]


def dim_of(edges):
    return len(axes_of(edges))


def all_cells(edges):
    """Every cell index (a tuple, one entry per axis)."""
    return list(itertools.product(*[range(len(a) - 1) for a in axes_of(edges)]))


def cell_edges(idx, edges):
    """((low, high), ...) of the cell with index *idx*."""
    return tuple((a[i], a[i + 1]) for a, i in zip(axes_of(edges), idx))


def axis_index(x, axis, rule="half-open"):
    """Index of the bin of *x* on one axis or None when x is outside.
    half-open (the documented rule): lower edge included, upper edge excluded.
    The other rules are *wrong* routings, used only to name what a failing implementation did."""
    n = len(axis) - 1
    if rule == "half-open":
        i = bisect.bisect_right(axis, x) - 1
    elif rule == "upper-closed":
        i = bisect.bisect_left(axis, x) - 1
    elif rule == "clip":
        i = min(max(bisect.bisect_right(axis, x) - 1, 0), n - 1)
    elif rule == "last-edge-included":
        i = bisect.bisect_right(axis, x) - 1
        if x == axis[-1]:
            i = n - 1
    else:
        raise ValueError(rule)
    if 0 <= i < n:
        return i
    return None


def cell_of(arg, edges, rule="half-open"):
    """Cell index (tuple) of the argument or None when any coordinate is outside the edges."""
    axes = axes_of(edges)
    coords = list(arg) if isinstance(arg, (list, tuple)) else [arg]
    if len(coords) != len(axes):
        return None
    idx = []
    for x, a in zip(coords, axes):
        i = axis_index(x, a, rule)
        if i is None:
            return None
        idx.append(i)
    return tuple(idx)


def get_cell(bins, idx):
    sub = bins
    for i in idx:
        sub = sub[i]
    return sub


def shape_ok(bins, edges):
    """*bins* is a nested list with exactly the shape the edges define."""
    sizes = [len(a) - 1 for a in axes_of(edges)]

    def rec(b, k):
        if not isinstance(b, list) or len(b) != sizes[k]:
            return False
        if k == len(sizes) - 1:
            return True
        return all(rec(x, k + 1) for x in b)
    return rec(bins, 0)


def axis_pool(axis, rich):
    """Arguments inside every bin, on every edge, just below / above and (rich) far outside."""
    pool = []
    if rich:
        pool.append(axis[0] - 3)
    pool.append(axis[0] - 0.5)
    for lo, hi in zip(axis, axis[1:]):
        pool.append(lo)
        pool.append((lo + hi) / 2.0)
    pool.append(axis[-1])
    if rich:
        pool.append(axis[-1] + 0.5)
        pool.append(axis[-1] + 50)
    return pool


def arg_pool(edges):
    axes = axes_of(edges)
    if len(axes) == 1:
        return axis_pool(axes[0], True)
    return [list(t) for t in itertools.product(*[axis_pool(a, False) for a in axes])]


# ---------------------------------------------------------------------------------------------
# values and contexts
# ---------------------------------------------------------------------------------------------

def split_value(v):
    """(data, context or None) by the documented rule: a 2-tuple whose second item is a dict."""
    if isinstance(v, tuple) and len(v) == 2 and isinstance(v[1], dict):
        return v[0], v[1]
    return v, None


def pay2_data(d):
    return d[0] * 8 + d[1]


def _on_data(f, val):
    data, ctx = split_value(val)
    if ctx is None:
        return f(data)
    return (f(data), ctx)


def pay2(val):
    """Call element (gets the whole value): a pair of coordinates becomes one number."""
    return _on_data(pay2_data, val)


def inc(val):
    return _on_data(lambda x: x + 1, val)


def sq(x):
    return x * x


def ident(x):
    return x


def shift_back(x):
    return x - 1


def get_xy(d):
    return (d[0], d[1])


def get_yx_list(d):
    return [d[1], d[0]]


def get_0(d):
    return d[0]


def get_1(d):
    return d[1]


def tag(val):
    """Post element: marks the context (in place when there is one)."""
    data, ctx = split_value(val)
    if ctx is None:
        ctx = {}
    ctx["tag"] = "t"
    return (data, ctx)


def mutate_context(val):
    """Pre element that mutates the context of the value it is given, in place."""
    data, ctx = split_value(val)
    if ctx is None:
        ctx = {}
    ctx.setdefault("seen", []).append(repr(data))
    ctx["last"] = {"data": repr(data)}
    return (data, ctx)


class Dup(object):
    """Run element: two results for every incoming value."""

    def run(self, flow):
        for val in flow:
            data, ctx = split_value(val)
            for k in (0, 1):
                c = copy.deepcopy(ctx) if ctx is not None else {}
                c["dup"] = k
                yield (data, c)


class Numberer(object):
    """Pre element that is a callable OBJECT with state: numbers the values it is given (a private copy
    of the analysis numbers the values of its own cell from 0)."""

    def __init__(self):
        self.n = 0

    def __call__(self, val):
        data, ctx = split_value(val)
        ctx = dict(ctx) if ctx is not None else {}
        ctx["n"] = self.n
        self.n += 1
        return (data, ctx)


class Tally(object):
    """A hand-written accumulator with mutable state: remembers every data it was filled with and
    yields len+1 results (so cells yield different numbers of results)."""

    def __init__(self):
        self.items = []
        self._context = {}

    def fill(self, val):
        data, ctx = split_value(val)
        self.items.append(data)
        if ctx is not None:
            self._context = ctx

    def compute(self):
        yield (len(self.items), copy.deepcopy(self._context))
        for it in self.items:
            yield (("item", it), copy.deepcopy(self._context))


ANALYSES = ("sum", "count", "inc_sum", "var_sum_tag", "mean_pass", "mean_raise", "mut_store",
            "split_sum_count", "each", "sum_dup", "hist", "tally", "numbered_store")

#: coarse family that goes into a violation's cause
FAMILY = {"sum": "bare-accumulator", "count": "bare-accumulator", "mean_pass": "bare-accumulator",
          "mean_raise": "bare-accumulator", "hist": "bare-accumulator", "each": "bare-accumulator",
          "tally": "bare-accumulator",
          "inc_sum": "pre-element", "mut_store": "pre-element-mutating-context",
          "numbered_store": "pre-element-callable-object-with-state",
          "var_sum_tag": "pre-and-post-elements", "sum_dup": "post-element-several-results",
          "split_sum_count": "split-several-results"}


def build_analysis(name, dim):
    """A fresh analysis (what a user passes as *seq* to SplitIntoBins)."""
    FCS = lena.core.FillComputeSeq
    pre = [pay2] if dim > 1 else []      # 2-d data are pairs; numeric accumulators get a number

    def seq(*els):
        els = list(els)
        if len(els) == 1:
            return els[0]
        return FCS(*els)
    if name == "sum":
        return seq(*(pre + [lena.math.Sum()]))
    if name == "count":
        return lena.flow.Count()
    if name == "inc_sum":
        return seq(*(pre + [inc, lena.math.Sum()]))
    if name == "var_sum_tag":
        getter = (lambda d: pay2_data(d) * pay2_data(d)) if dim > 1 else sq
        var = lena.variables.Variable("sq", getter, type="coordinate", unit="cm2")
        return FCS(var, lena.math.Sum(), tag)
    if name == "mean_pass":
        return seq(*(pre + [lena.math.Mean(pass_on_empty=True)]))
    if name == "mean_raise":
        return seq(*(pre + [lena.math.Mean()]))
    if name == "mut_store":
        return FCS(mutate_context, lena.flow.StoreFilled())
    if name == "split_sum_count":
        return lena.core.Split([seq(*(pre + [lena.math.Sum()])), lena.flow.Count()])
    if name == "each":
        return lena.flow.StoreFilled(yield_as_a_group=False)
    if name == "sum_dup":
        return FCS(*(pre + [lena.math.Sum(), Dup()]))
    if name == "hist":
        return seq(*(pre + [lena.structures.Histogram([-10, 0, 1, 100])]))
    if name == "tally":
        return Tally()
    if name == "numbered_store":
        return FCS(Numberer(), lena.flow.StoreFilled())
    raise ValueError(name)


VARS = {1: ("x", "shift"), 2: ("xy", "combine", "yx")}


def build_var(name):
    V = lena.variables.Variable
    if name == "x":
        return V("x", ident)
    if name == "shift":
        return V("xs", shift_back, type="coordinate", unit="cm", latex_name="x_s")
    if name == "xy":
        return V("xy", get_xy)
    if name == "combine":
        return lena.variables.Combine(V("x", get_0), V("y", get_1, type="coordinate"), name="xy_c")
    if name == "yx":
        return V("yx", get_yx_list, type="coordinate")
    raise ValueError(name)


def data_for(arg, var):
    """Data whose argument (under the variable *var*) is *arg*."""
    if var == "x":
        return arg
    if var == "shift":
        return arg + 1
    if var in ("xy", "combine"):
        return (arg[0], arg[1])
    if var == "yx":
        return (arg[1], arg[0])
    raise ValueError(var)


CTX_MODES = ("bare", "ctx", "varctx")

#: contexts whose context.variable (left by an earlier variable of the flow) stands in every other relation
#: to the argument variable: an earlier variable of the SAME type as the typed argument variables
#: ("coordinate"), an earlier composition that already holds a sub-context of that type, and an earlier
#: variable without a type (CTX_MODES' "varctx" is an earlier variable of another type)
VAR_MODES = ("varsame", "varcomposed", "varuntyped")


def context_for(i, mode):
    if mode == "bare":
        return None
    if mode == "ctx":
        return {"src": {"i": i}}
    if mode == "varctx":
        return {"variable": {"name": "p", "type": "particle", "particle": {"name": "p"}},
                "i": i}
    if mode == "varsame":
        return {"variable": {"name": "q", "unit": "mm", "type": "coordinate",
                             "coordinate": {"name": "q", "unit": "mm"}},
                "i": i}
    if mode == "varcomposed":
        return {"variable": {"name": "q", "unit": "mm", "type": "coordinate",
                             "coordinate": {"name": "q", "unit": "mm"},
                             "particle": {"name": "p"}, "compose": ["particle", "coordinate"]},
                "i": i}
    if mode == "varuntyped":
        return {"variable": {"name": "u", "unit": "kg", "latex_name": "u_0"}, "i": i}
    raise ValueError(mode)


def build_flow(args, var, mode):
    """Fresh value objects (no two values share a context) for the argument list."""
    out = []
    for i, a in enumerate(args):
        d = data_for(a, var)
        c = context_for(i, mode)
        out.append(d if c is None else (d, c))
    return out


# ---------------------------------------------------------------------------------------------
# the per-cell oracle
# ---------------------------------------------------------------------------------------------

def private_copy_results(analysis, values):
    """What a private copy of the analysis computes from *values*:
    (list of results, "end" or the type name of the exception that ended compute)."""
    seq = analysis
    if not isinstance(seq, lena.core.FillComputeSeq):
        seq = lena.core.FillComputeSeq(seq)
    results = []
    try:
        for v in values:
            seq.fill(v)
        for r in seq.compute():
            results.append(r)
    except Exception as e:  # noqa: type is part of the outcome
        return results, type(e).__name__
    return results, "end"


def template_value(edges, var, mode, k):
    """The k-th value somebody fills into the TEMPLATE object (the analysis object that is handed to
    SplitIntoBins) directly: its argument lies in the middle of the first cell; a fresh object with
    a context of its own on every call (k < 0: before SplitIntoBins was constructed)."""
    arg = [(a[0] + a[1]) / 2.0 for a in axes_of(edges)]
    d = data_for(arg if len(arg) > 1 else arg[0], var)
    c = context_for(1000 + k, mode)
    return d if c is None else (d, c)


def build_template(an, edges, var, mode, pre):
    """A fresh analysis that already holds *pre* values when it is handed over."""
    analysis = build_analysis(an, dim_of(edges))
    for k in range(pre):
        analysis.fill(template_value(edges, var, mode, -1 - k))
    return analysis


def reference_cells(edges, an, var, mode, args, rule="half-open", route_by="arg", pre=0):
    """cell index -> (results, terminal, positions, values) computed independently for every cell.
    *pre*: the analysis held that many values when SplitIntoBins got it (a copy of the sequence is a
    copy of it as it is then), so every cell's independent analysis is built and pre-filled the same
    way."""
    d = dim_of(edges)
    part = dict((idx, []) for idx in all_cells(edges))
    for pos, a in enumerate(args):
        key = a if route_by == "arg" else data_for(a, var)
        idx = cell_of(key, edges, rule)
        if idx is not None:
            part[idx].append(pos)
    out = {}
    for idx in all_cells(edges):
        values = build_flow(args, var, mode)        # fresh deep copies for every cell
        sub = [values[p] for p in part[idx]]
        results, term = private_copy_results(build_template(an, edges, var, mode, pre), sub)
        out[idx] = (results, term, part[idx], sub)
    return out


def compute_segments(n, computes):
    """The fills between the computes of a history: *computes* are the points (k = before the k-th of
    the n fills, n = after the last fill) at which compute() is called in addition to the final
    compute().  Returns one (first position, end position) per compute, the final one included."""
    bounds = sorted(computes) + [n]
    segments, start = [], 0
    for b in bounds:
        segments.append((start, b))
        start = b
    return segments


def private_history_results(analysis, segments):
    """What a private copy of the analysis computes at every compute of a history fill*, compute,
    fill*, compute ...: *segments* holds the values filled before each compute.  Returns one
    (results, "end" or exception type name) per compute; results are snapshots taken when they were
    computed.  A fill that raises ends the history of this copy: all later computes give ([], type)."""
    seq = analysis
    if not isinstance(seq, lena.core.FillComputeSeq):
        seq = lena.core.FillComputeSeq(seq)
    out = []
    broken = None
    for values in segments:
        if broken is None:
            try:
                for v in values:
                    seq.fill(v)
            except Exception as e:  # noqa
                broken = type(e).__name__
        if broken is not None:
            out.append(([], broken))
            continue
        results = []
        term = "end"
        try:
            for r in seq.compute():
                results.append(r)
        except Exception as e:  # noqa
            term = type(e).__name__
        out.append((copy.deepcopy(results), term))
    return out


def reference_history(edges, an, var, mode, args, computes, pre=0):
    """The per-cell oracle for a history with several computes: a list with one entry per compute
    (the final one last), each cell index -> (results, terminal, positions, values) like
    reference_cells, the positions and values being those routed into the cell so far.  Every cell's
    private copy is computed at exactly the points at which SplitIntoBins is computed."""
    cells = all_cells(edges)
    segments = compute_segments(len(args), computes)
    where = [cell_of(a, edges) for a in args]
    per_cell = {}
    for idx in cells:
        values = build_flow(args, var, mode)        # fresh deep copies for every cell
        segs = [[values[p] for p in range(lo, hi) if where[p] == idx] for lo, hi in segments]
        per_cell[idx] = (values, private_history_results(build_template(an, edges, var, mode, pre), segs))
    out = []
    for c, (lo, hi) in enumerate(segments):
        entry = {}
        for idx in cells:
            values, hist = per_cell[idx]
            positions = [p for p in range(hi) if where[p] == idx]
            entry[idx] = (hist[c][0], hist[c][1], positions, [values[p] for p in positions])
        out.append(entry)
    return out


# ---------------------------------------------------------------------------------------------
# the string of a cell's edges (IterateBins' context.bin.edges_str, cell_to_string and its options)
# ---------------------------------------------------------------------------------------------

def documented_names(var_context, dim):
    """The coordinate names the docstrings fix: "var_context is variable context containing variable
    names (it can be a single Variable or Combine)" - the name of a one-dimensional variable, the names
    of the variables of a Combine.  None where nothing is documented (no variable, a multidimensional
    variable that is not a Combine)."""
    if not isinstance(var_context, dict):
        return None
    if "combine" in var_context:
        names = [c.get("name") for c in var_context["combine"]]
        return names if len(names) == dim else None
    if dim == 1 and "name" in var_context:
        return [var_context["name"]]
    return None


def edges_string(cell_edges_, names, fmt, join, reverse):
    """cell_to_string by its docstring: every coordinate formatted with *fmt* from (lower bound, name,
    upper bound) of that coordinate, joined with *join*, in reverse order of the coordinates if
    *reverse*."""
    parts = [fmt.format(pair[0], name, pair[1]) for pair, name in zip(cell_edges_, names)]
    if reverse:
        parts = parts[::-1]
    return join.join(parts)


# ---------------------------------------------------------------------------------------------
# MapBins sequences
# ---------------------------------------------------------------------------------------------

def wrap(val):
    data, ctx = split_value(val)
    return (("m", data), ctx if ctx is not None else {})


def read_context(val):
    """The new content depends on the context of the cell (the sequence is applied to the cells
    themselves, whatever happens to the context of the result afterwards)."""
    data, ctx = split_value(val)
    return (("c", data, sorted(ctx) if ctx else None), ctx if ctx is not None else {})


def wrap_b(val):
    data, ctx = split_value(val)
    return (("b", data), ctx if ctx is not None else {})


def to_v(d):
    return ("v", d)


def mark_context(val):
    data, ctx = split_value(val)
    if ctx is None:
        ctx = {}
    ctx["marked"] = ctx.get("marked", 0) + 1
    return (data, ctx)


class Running(object):
    """Run element with state that survives between run() calls: numbers everything it ever saw."""

    def __init__(self):
        self.n = 0

    def run(self, flow):
        for val in flow:
            data, ctx = split_value(val)
            self.n += 1
            yield (("n", self.n, data), ctx if ctx is not None else {})


class Copies(object):
    """Run element: one result for 'empty' data (0, None, empty container), two otherwise."""

    def run(self, flow):
        for val in flow:
            data, ctx = split_value(val)
            reps = 2 if data else 1
            for k in range(reps):
                c = copy.deepcopy(ctx) if ctx is not None else {}
                c["copy"] = k
                yield (("c", data), c)


MAP_SEQS = ("wrap", "var", "dup", "running", "copies", "markctx", "split2", "seq2", "readctx")


def build_map_seq(name):
    if name == "wrap":
        return wrap
    if name == "var":
        return lena.variables.Variable("m", to_v, type="mapped")
    if name == "dup":
        return Dup()
    if name == "running":
        return Running()
    if name == "copies":
        return Copies()
    if name == "markctx":
        return mark_context
    if name == "readctx":
        return read_context
    if name == "split2":
        return lena.core.Split([wrap, wrap_b])
    if name == "seq2":
        return lena.core.Sequence(wrap, Running(), mark_context)
    raise ValueError(name)


def as_run(seq):
    """What the docstring of MapBins says: anything without *run* is converted to a Sequence."""
    if hasattr(seq, "run") and callable(seq.run):
        return seq
    return lena.core.Sequence(seq)
