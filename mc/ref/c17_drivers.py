"""Helpers of the C17 check: the ways a fill_into element can be driven, and the queries ("observers")
a program may put to an element between its construction and its use.

Nothing here knows how lena implements anything.

Drivers of fill_into
--------------------
`lena.core.LenaStopFill` is documented as "no more fill is accepted; analogous to StopIteration, but control
flow is reversed". A caller has two honest ways to react to it:

  * ``first-stop``  - it stops offering values (what Split does);
  * ``offer-all``   - it catches the exception for the value it offered and goes on with the next value of
                      the flow (a loop with try/except around each fill_into; any element that forwards
                      values without looking at what the inner element said).

Under both, the values that reach the target element must be the slice of the flow offered: a stop that was
justified ("no later value could be selected") stays justified whatever is offered afterwards.

Observers
---------
`repr`, `==`, `!=` (both operand orders) and `in` are queries. What they answer is not C17's business and is
not judged (an observer that raises is ignored here, too); what C17 demands is that the element produces
what its Python reference produces, whether or not somebody looked at it first.
"""
import lena.core


POLICIES = ("first-stop", "offer-all")


def observe(el, peers):
    """Put every query to *el* against every peer. Answers and exceptions are deliberately dropped."""
    n = 0
    for query in (lambda p: repr(el), lambda p: el == p, lambda p: p == el,
                  lambda p: el != p, lambda p: p != el, lambda p: el in [p], lambda p: [p].count(el)):
        for p in peers:
            try:
                query(p)
            except Exception:
                pass
            n += 1
    return n


def drive_fill_into(el, sink_for, xs, policy, between=None):
    """Offer the values of *xs* to el.fill_into one by one; sink_for(j) is the element given with value j.

    Returns the list of indices at which LenaStopFill was raised (at most one under ``first-stop``).
    *between*, if given, is called before every offer and once after the last one (observers).
    Exceptions other than LenaStopFill propagate.
    """
    stops = []
    for j, v in enumerate(xs):
        if between is not None:
            between()
        try:
            el.fill_into(sink_for(j), v)
        except lena.core.LenaStopFill:
            stops.append(j)
            if policy == "first-stop":
                break
    if between is not None:
        between()
    return stops
