"""Reference model for C08: naming a nested key, templates, and the edit a context-updating element
may make.

Written from the property statement and the docstrings of lena.context (get_recursively,
str_to_dict, str_to_list, contains, format_context, format_update_with, to_string, UpdateContext,
DeleteContext). Nothing here imports lena; the dictionary helpers (fresh copy, typed freeze, merge)
come from mc/ref/c07c08_dicts.py.

Vocabulary
----------
A *path* is a tuple of non-empty strings. It can be written in three notations: the dotted string
"a.b.c", the list ["a", "b", "c"], and a dictionary with one key per level. The docstring of
get_recursively allows "at most one key at each level", and str_to_dict("a.b.c") == {"a": {"b": "c"}},
so two dictionary spellings exist: the last component as the innermost *value* ("dict-leaf", needs at
least two components) and every component as a key of an innermost empty dictionary ("dict-empty").

Looking a path up in a context walks one key per component; the walk fails when a key is absent
("absent") or when it meets a value that is not a dictionary before the path ends ("through-scalar").
"""
import itertools
import re

from mc.ref import c07c08_dicts as R


# -- paths and notations --------------------------------------------------------------------------

def dotted(path):
    return ".".join(path)


def well_formed(s):
    """A dotted string with at least one component, none of them empty."""
    return isinstance(s, str) and s != "" and all(s.split("."))


def nest(path, value):
    """{'a': {'b': value}} for path ('a', 'b'); *value* itself for the empty path."""
    out = value
    for k in reversed(path):
        out = {k: out}
    return out


def notations(path):
    """[(name, freshly built keys object)] - every way of writing *path*."""
    path = tuple(path)
    out = [("string", dotted(path)), ("list", list(path)), ("dict-empty", nest(path, {}))]
    if len(path) >= 2:
        out.append(("dict-leaf", nest(path[:-1], path[-1])))
    return out


def find(d, path):
    """(status, object): status 'present' (object is the addressed item itself), 'absent' or
    'through-scalar'."""
    cur = d
    for k in path:
        if not isinstance(cur, dict):
            return "through-scalar", None
        if k not in cur:
            return "absent", None
        cur = cur[k]
    return "present", cur


def contains_ref(d, path):
    """contains(d, s): the key path exists, or (docstring: 'fit.coordinate.x') everything but the last
    component leads to a value that is not a dictionary and whose str() is the last component."""
    st, _ = find(d, path)
    if st == "present":
        return True
    if len(path) >= 2:
        st, parent = find(d, path[:-1])
        if st == "present" and not isinstance(parent, dict):
            try:
                return str(parent) == path[-1]
            except Exception:
                return False
    return False


def paths(alphabet, lengths):
    out = []
    for n in lengths:
        out.extend(itertools.product(alphabet, repeat=n))
    return out


# -- templates ------------------------------------------------------------------------------------

_FIELD = re.compile(r"\{\{([^{}]*)\}\}")


def parse_template(s, conversions=False):
    """A well-formed template is a concatenation of brace-free literals and fields '{{path}}' with a
    well-formed dotted path (format_context also takes Python's '!r' conversion). Returns the list of
    ('lit', text) / ('field', path, conversion), or None for anything else (single, unbalanced,
    nested or misplaced braces, empty fields)."""
    parts, pos = [], 0
    for m in _FIELD.finditer(s):
        lit = s[pos:m.start()]
        if "{" in lit or "}" in lit:
            return None
        if lit:
            parts.append(("lit", lit))
        body, conv = m.group(1), ""
        if conversions and body.endswith("!r"):
            body, conv = body[:-2], "r"
        if not well_formed(body) or any(ch in body for ch in "!:[]() |'\""):
            return None
        parts.append(("field", tuple(body.split(".")), conv))
        pos = m.end()
    lit = s[pos:]
    if "{" in lit or "}" in lit:
        return None
    if lit:
        parts.append(("lit", lit))
    return parts


def fields_of(parts):
    return [p for p in parts if p[0] == "field"]


def render(parts, ctx, missing=None):
    """(True, text) or (False, first missing path). With *missing* given (a string), an absent field
    renders as that string instead."""
    out = []
    for p in parts:
        if p[0] == "lit":
            out.append(p[1])
            continue
        st, v = find(ctx, p[1])
        if st != "present":
            if missing is None:
                return False, p[1]
            out.append(missing)
        else:
            out.append(repr(v) if p[2] == "r" else str(v))
    return True, "".join(out)


# -- the edits ------------------------------------------------------------------------------------

def set_path(ctx, path, value, recursively=True):
    """A fresh context in which exactly the item at *path* was set to (a copy of) *value*: the
    dictionaries leading to it are created (a non-dictionary in the way is replaced: 'subcontext is
    always created'); with *recursively* an existing dictionary item is merged with a dictionary value
    ('not overwritten existing values of subcontext are preserved'), otherwise the item is replaced."""
    out = R.fresh(ctx)
    cur = out
    for k in path[:-1]:
        if not isinstance(cur.get(k), dict):
            cur[k] = {}
        cur = cur[k]
    last = path[-1]
    if recursively and isinstance(value, dict) and isinstance(cur.get(last), dict):
        cur[last] = R.merge(cur[last], value)
    else:
        cur[last] = R.fresh(value)
    return out


def delete_path(ctx, path):
    """A fresh context without the item at *path* (unchanged when there is no such item)."""
    out = R.fresh(ctx)
    if not path:
        return out
    st, parent = find(out, path[:-1])
    if st == "present" and isinstance(parent, dict) and path[-1] in parent:
        del parent[path[-1]]
    return out


def all_orders(d):
    """Every dictionary equal to *d* that differs only in the insertion order of keys (at every
    level; lists keep their order)."""
    if type(d) is not dict:
        yield d
        return
    keys = list(d)
    sub_orders = [list(all_orders(d[k])) for k in keys]
    for perm in itertools.permutations(range(len(keys))):
        for combo in itertools.product(*[sub_orders[i] for i in perm]):
            yield {keys[i]: R.fresh(v) for i, v in zip(perm, combo)}


def encode_ordered(x):
    """JSON form that keeps key order (replay files are written with sort_keys)."""
    if type(x) is dict:
        return {"__items__": [[k, encode_ordered(v)] for k, v in x.items()]}
    if type(x) is list:
        return [encode_ordered(v) for v in x]
    return x


def decode_ordered(x):
    if type(x) is dict:
        return {k: decode_ordered(v) for k, v in x["__items__"]}
    if type(x) is list:
        return [decode_ordered(v) for v in x]
    return x


# -- UpdateContext: decision table written from its docstring -----------------------------------------

TYPE_ERR = "LenaTypeError"
VALUE_ERR = "LenaValueError"
KEY_ERR = "LenaKeyError"

_SINGLE_EXPR = re.compile(r"^\{\{([^{}]+)\}\}$")


def subcontext_kind(sub):
    if not isinstance(sub, str):
        return "nonstring"
    if sub == "":
        return "empty"
    if not well_formed(sub):
        return "illformed"
    return "ok"


def update_kind(update, value):
    """'simple' | 'ctxvalue' | 'template' | 'template-junk' | 'bad-ctxvalue'."""
    if not isinstance(update, str):
        return "simple"
    if value:
        m = _SINGLE_EXPR.match(update)
        if m and well_formed(m.group(1)) and parse_template(update) is not None:
            return "ctxvalue"
        if m:
            return "ctxvalue-odd"      # one expression in braces, but not a plain dotted path
        return "bad-ctxvalue"
    if parse_template(update) is not None:
        return "template"
    return "template-junk"


def uc_expect_ctor(cfg):
    """What UpdateContext(**cfg) must do at construction:
    {'kind', 'sub', 'errors': exceptions one of which MUST be raised (empty: must construct),
     'optional': exceptions that MAY be raised instead of constructing}."""
    sub = subcontext_kind(cfg["sub"])
    kind = update_kind(cfg["update"], cfg["value"])
    has_default = bool(cfg["default"])
    n_active = int(has_default) + int(bool(cfg["skip"])) + int(bool(cfg["raise"]))
    errors, optional = set(), set()
    if sub == "nonstring":
        errors.add(TYPE_ERR)        # "If subcontext is not a string, LenaTypeError is raised."
    elif sub == "empty":
        errors.add(VALUE_ERR)       # "If it is empty, LenaValueError is raised."
    elif sub == "illformed":
        optional.add(VALUE_ERR)     # empty components: undefined, only the exception contract
    if n_active > 1:
        errors.add(VALUE_ERR)       # "Only one of default, skip_on_missing or raise_on_missing ..."
    if kind == "simple":
        if n_active:
            errors.add(VALUE_ERR)   # "None of these options can be used if update is a simple value."
        if cfg["value"]:
            optional.add(VALUE_ERR)  # value=True with a non-string update: not documented
    elif kind == "bad-ctxvalue":
        errors.add(VALUE_ERR)       # "braces can be only the first two and the last two symbols"
    elif kind == "ctxvalue-odd":
        optional.add(VALUE_ERR)
    elif kind in ("template", "template-junk"):
        if has_default:
            errors.add(VALUE_ERR)   # "default keyword argument can't be used" with a formatting string
        if kind == "template-junk":
            optional.add(VALUE_ERR)  # template syntax is jinja2's business; malformed -> LenaValueError
    return {"kind": kind, "sub": sub, "errors": errors, "optional": optional}
