"""C03 reference model: branch alphabet and an interpreter of the *documented* Split schedule.

Nothing here looks at lena.core.split: the interpreter below is written from the Split.run docstring
and the statement of property C03 and drives fresh REAL branch objects (the same factories build the
branches handed to the real Split and the ones driven here).

Branch output is always attributable: every value a branch emits is a pair (tag, payload) with
tag = "b<position>".
"""
import copy
import itertools

import lena.core
import lena.flow
import lena.math

SOURCE, FC, FR, SEQ = "source", "fill_compute", "fill_request", "sequence"


# --------------------------------------------------------------------------------------------------
# user-level elements of the alphabet (not lena code)

class Tagger(object):
    """Final element of a branch: value -> (tag, value)."""

    def __init__(self, tag):
        self.tag = tag

    def __call__(self, value):
        return (self.tag, value)


class Gen(object):
    """Head of a Source: two values per call; the call number is part of the values, so a Source
    that is called twice (or never) is visible in the output."""

    def __init__(self):
        self.calls = 0

    def __call__(self):
        self.calls += 1
        c = self.calls
        yield ("src", c, 0)
        yield ("src", c, 1)


class StopFill(object):
    """FillInto element: passes the first *max_count* values, then raises LenaStopFill."""

    def __init__(self, max_count):
        self._max_count = max_count
        self._count = 0
        self.fired = 0

    def fill_into(self, el, val):
        if self._count >= self._max_count:
            self.fired += 1
            raise lena.core.LenaStopFill
        el.fill(val)
        self._count += 1


class Acc(object):
    """Bare fill/compute element with tagged output; every compute() call is numbered."""

    def __init__(self, tag):
        self.tag = tag
        self.got = []
        self.computes = 0

    def fill(self, value):
        self.got.append(value)

    def compute(self):
        self.computes += 1
        yield (self.tag, ("compute", self.computes, tuple(self.got)))


class ReqEl(object):
    """Bare fill/request element with tagged output; every request() call is numbered and
    reports (and forgets) what was filled since the last one."""

    def __init__(self, tag):
        self.tag = tag
        self.got = []
        self.requests = 0

    def fill(self, value):
        self.got.append(value)

    def request(self):
        self.requests += 1
        got, self.got = tuple(self.got), []
        yield (self.tag, ("request", self.requests, got))


class Marker(object):
    """Run element: passes values (tagged) and yields one extra marker per run() invocation, so
    'invoked once on an empty flow' and 'run once per block' are visible in the output."""

    def __init__(self, tag):
        self.tag = tag
        self.runs = 0

    def run(self, flow):
        self.runs += 1
        r = self.runs
        for val in flow:
            yield (self.tag, ("v", val))
        yield (self.tag, ("end-of-run", r))


class CtxAcc(object):
    """fill/compute or fill/request element (for Zip) yielding one result per stored value,
    bare or with a context."""

    def __init__(self, tag, mode, keep=None):
        self.tag, self.mode, self.keep = tag, mode, keep
        self.got = []

    def fill(self, value):
        if self.keep is None or value % 2 == self.keep:
            self.got.append(value)

    def _results(self):
        for v in self.got:
            data = (self.tag, v)
            if self.mode == "raw":
                yield v         # the stored value itself (None included) is the result
            elif self.mode == "bare":
                yield data
            elif self.mode == "same":
                yield (data, {"common": 1, "v": v})
            else:
                yield (data, {"common": 1, "own": self.tag, "v" + self.tag: v})

    def compute(self):
        return self._results()


class CtxReq(CtxAcc):
    compute = None

    def request(self):
        res = list(self._results())
        self.got = []
        return iter(res)

    def reset(self):
        self.got = []


def _even(v):
    return v % 2 == 0


def _add100(v):
    return v + 100


# --------------------------------------------------------------------------------------------------
# branch factories: name -> (kind, form, stopper?, builder(tag, j))

def _fr_adapter(bufsize):
    return lena.core.FillRequest(lena.flow.StoreFilled(), bufsize=bufsize, reset=True,
                                 buffer_input=True)


FACTORIES = {
    # Source of two values
    "src": (SOURCE, "explicit", False,
            lambda tag, j: lena.core.Source(Gen(), Tagger(tag))),
    # fill/compute
    "fc_sum": (FC, "tuple", False,
               lambda tag, j: (lena.math.Sum(), Tagger(tag))),
    "fc_acc": (FC, "bare", False,
               lambda tag, j: Acc(tag)),
    "fc_stop": (FC, "tuple", True,
                lambda tag, j: (StopFill(j), lena.flow.StoreFilled(), Tagger(tag))),
    # fill/request
    "fr1_tuple": (FR, "tuple", False,
                  lambda tag, j: (_fr_adapter(1), Tagger(tag))),
    "fr2_seq": (FR, "explicit", False,
                lambda tag, j: lena.core.FillRequestSeq(_fr_adapter(2), Tagger(tag),
                                                        reset=False, buffer_input=True)),
    "fr_req": (FR, "bare", False,
               lambda tag, j: ReqEl(tag)),
    "fr_stop": (FR, "explicit", True,
                lambda tag, j: lena.core.FillRequestSeq(StopFill(j), ReqEl(tag),
                                                        reset=False, buffer_input=True)),
    "fr_stop_tuple": (FR, "tuple", True,
                      lambda tag, j: (StopFill(j), ReqEl(tag))),
    # plain sequences
    "seq_map": (SEQ, "tuple", False,
                lambda tag, j: (_add100, Tagger(tag))),
    "seq_filter": (SEQ, "tuple", False,
                   lambda tag, j: (lena.flow.Filter(_even), Tagger(tag))),
    "seq_marker": (SEQ, "bare", False,
                   lambda tag, j: Marker(tag)),
    "seq_sum": (SEQ, "explicit", False,
                lambda tag, j: lena.core.Sequence(lena.math.Sum(), Tagger(tag))),
}

# simplest first
ORDER = ["seq_map", "fc_sum", "src", "seq_marker", "fr_req", "fc_stop", "fr_stop", "seq_filter",
         "fc_acc", "fr2_seq", "fr1_tuple", "seq_sum", "fr_stop_tuple"]
assert sorted(ORDER) == sorted(FACTORIES)


# --------------------------------------------------------------------------------------------------
# further FORMS of a branch (the four kinds stay the same): an instance of a user subclass of the
# documented sequence class, and a Split given as a branch of a Split

class SubSource(lena.core.Source):
    """User subclass of Source: its instances are Sources."""


class SubFillComputeSeq(lena.core.FillComputeSeq):
    """User subclass of FillComputeSeq."""


class SubFillRequestSeq(lena.core.FillRequestSeq):
    """User subclass of FillRequestSeq."""


class SubSequence(lena.core.Sequence):
    """User subclass of Sequence."""


class InTagger(object):
    """Final element of branch *k* of a Split that is itself branch *tag*: value -> (tag, (k, value))."""

    def __init__(self, tag, k):
        self.tag, self.k = tag, "in%d" % k

    def __call__(self, value):
        return (self.tag, (self.k, value))


class InReq(ReqEl):
    """ReqEl as branch *k* of a nested Split."""

    def __init__(self, tag, k):
        super(InReq, self).__init__(tag)
        self.k = "in%d" % k

    def request(self):
        for t, payload in super(InReq, self).request():
            yield (t, (self.k, payload))


FACTORIES.update({
    "src_sub": (SOURCE, "subclass", False,
                lambda tag, j: SubSource(Gen(), Tagger(tag))),
    "fc_sub": (FC, "subclass", False,
               lambda tag, j: SubFillComputeSeq(lena.math.Sum(), Tagger(tag))),
    "fr_sub": (FR, "subclass", False,
               lambda tag, j: SubFillRequestSeq(_fr_adapter(2), Tagger(tag),
                                                reset=False, buffer_input=True)),
    "seq_sub": (SEQ, "subclass", False,
                lambda tag, j: SubSequence(_add100, Tagger(tag))),
})
SUBCLASS_FORMS = ["seq_sub", "fc_sub", "src_sub", "fr_sub"]

# inner branches of a nested Split: one per kind
_INNER = {
    "seq_map": (SEQ, lambda tag, k: (_add100, InTagger(tag, k))),
    "fc_sum": (FC, lambda tag, k: (lena.math.Sum(), InTagger(tag, k))),
    "fr_req": (FR, lambda tag, k: InReq(tag, k)),
    "src": (SOURCE, lambda tag, k: lena.core.Source(Gen(), InTagger(tag, k))),
}
INNER_ORDER = ["seq_map", "fc_sum", "fr_req", "src"]


def nested_name(inner):
    return "split(%s)" % "+".join(inner)


def _nested_kind(inner):
    """Kind of a Split used as a branch, from the Split docstring: with a common fill/compute
    (fill/request) type it 'can be used as a FillCompute (FillRequest) sequence'; an empty Split
    'acts as an empty Sequence'; with branches of different kinds it has only the method run, i.e.
    it is an element of a plain Sequence branch. (A Split of Sources only is left out of the
    alphabet: callable, but not 'a Source explicitly' - the statement does not say which it is.)"""
    kinds = set(_INNER[nm][0] for nm in inner)
    if kinds == {FC}:
        return FC
    if kinds == {FR}:
        return FR
    return SEQ


def _nested_builder(inner):
    def build_nested(tag, j):
        return lena.core.Split([_INNER[nm][1](tag, k) for k, nm in enumerate(inner)])
    return build_nested


NESTED_FORMS = []
for _k in range(3):
    for _inner in itertools.product(INNER_ORDER, repeat=_k):
        if _inner and set(_inner) == {"src"}:
            continue
        FACTORIES[nested_name(_inner)] = (_nested_kind(_inner), "split", False, _nested_builder(_inner))
        NESTED_FORMS.append(nested_name(_inner))

# the forms beyond ORDER, simplest first
FORMS = SUBCLASS_FORMS + NESTED_FORMS
assert sorted(ORDER + FORMS) == sorted(FACTORIES)

PER_VALUE = ("seq_map", "seq_filter", "seq_sub")     # per-value (map / filter) branches


def kind_of(name):
    return FACTORIES[name][0]


def form_of(name):
    return FACTORIES[name][1]


def is_stopper(name):
    return FACTORIES[name][2]


def tag(i):
    return "b%d" % i


def build(names, js):
    """Fresh branch objects, in the form in which a user hands them to Split / Zip."""
    return [FACTORIES[nm][3](tag(i), j) for i, (nm, j) in enumerate(zip(names, js))]


def driveable(obj, kind):
    """The object whose documented methods (call / fill+compute / fill+request / run) the
    reference drives: explicit sequences and bare elements as they are, tuples converted to the
    sequence type the documentation names for them."""
    if kind == SOURCE:
        return obj
    if kind == FC:
        if isinstance(obj, tuple):
            return lena.core.FillComputeSeq(*obj)
        return obj
    if kind == FR:
        if isinstance(obj, tuple):
            return lena.core.FillRequestSeq(*obj, reset=False, buffer_input=True)
        return obj
    if isinstance(obj, lena.core.Sequence):
        return obj
    if isinstance(obj, tuple):
        return lena.core.Sequence(*obj)
    return lena.core.Sequence(obj)


def build_driveable(names, js):
    return [driveable(o, kind_of(nm)) for o, nm in zip(build(names, js), names)]


# --------------------------------------------------------------------------------------------------
# the documented schedule

def blocks_of(flow, bufsize):
    """'The flow is divided into subslices of bufsize' (None: the whole flow is one block)."""
    flow = list(flow)
    if not flow:
        return []
    if bufsize is None:
        return [flow]
    return [flow[i:i + bufsize] for i in range(0, len(flow), bufsize)]


def _fill_block(branch, block):
    """Fill the block; True if the branch signalled LenaStopFill."""
    for val in block:
        try:
            branch.fill(copy.deepcopy(val))
        except lena.core.LenaStopFill:
            return True
    return False


def reference_run(names, js, flow, bufsize, stopped_fc="at-stop", empty="branch-order", branches=None):
    """Output of the documented schedule, driving fresh real branch objects.

    Two points the statement leaves open are parameters (the check accepts every reading):
    *stopped_fc*: compute() results of a fill/compute branch that signalled LenaStopFill are
      emitted "at-stop" (it is finalised where it stopped) or "at-end" (with the other computes);
    *empty*: on an empty flow the single invocations come in "branch-order", or "computes-last"
      (an empty flow treated as one empty block followed by the final computes).

    *branches*: drive these (already used) branch objects instead of fresh ones - a second run of
    the same Split is one more run of the same schedule over the same branch objects.

    Returns (output list, info dict).
    """
    kinds = [kind_of(nm) for nm in names]
    if branches is None:
        branches = build_driveable(names, js)
    out = []
    info = {"stops": 0, "blocks": 0, "final_from": None}
    blocks = blocks_of(flow, bufsize)
    info["blocks"] = len(blocks)

    if not blocks:
        # "If the flow was empty, each call, compute, request or run is called nevertheless."
        order = list(range(len(branches)))
        if empty == "computes-last":
            order = [i for i in order if kinds[i] != FC] + [i for i in order if kinds[i] == FC]
        for i in order:
            b, kind = branches[i], kinds[i]
            if kind == SOURCE:
                out.extend(b())
            elif kind == FC:
                out.extend(b.compute())
            elif kind == FR:
                out.extend(b.request())
            else:
                out.extend(b.run([]))
        info["final_from"] = 0
        return out, info

    active = list(range(len(branches)))
    deferred = set()                       # stopped fill/compute branches (reading "at-end")
    for block in blocks:
        for i in list(active):
            b, kind = branches[i], kinds[i]
            if kind == SOURCE:
                # produces its own complete flow and becomes inactive
                out.extend(b())
                active.remove(i)
            elif kind == FC:
                if _fill_block(b, block):
                    info["stops"] += 1
                    active.remove(i)
                    if stopped_fc == "at-stop":
                        out.extend(b.compute())
                    else:
                        deferred.add(i)
            elif kind == FR:
                stopped = _fill_block(b, block)
                # yields all values from request() after the buffer is finished
                out.extend(b.request())
                if stopped:
                    info["stops"] += 1
                    active.remove(i)
            else:
                out.extend(b.run(copy.deepcopy(block)))
    info["final_from"] = len(out)
    # after the whole flow: compute() of the fill/compute branches, in branch order
    for i in range(len(branches)):
        if kinds[i] == FC and (i in active or i in deferred):
            out.extend(branches[i].compute())
    return out, info


def expected_outputs(names, js, flow, bufsize):
    """All outputs the statement allows (list of distinct lists, the plain reading first)."""
    first, info = reference_run(names, js, flow, bufsize)
    outs = [first]
    if not flow:
        if FC in [kind_of(nm) for nm in names]:
            alt, _ = reference_run(names, js, flow, bufsize, empty="computes-last")
            if alt not in outs:
                outs.append(alt)
    elif info["stops"] and any(kind_of(nm) == FC and is_stopper(nm) for nm in names):
        alt, _ = reference_run(names, js, flow, bufsize, stopped_fc="at-end")
        if alt not in outs:
            outs.append(alt)
    return outs, info


def expected_two_runs(names, js, make_flow, bufsize, exc_repr):
    """All (first output, second output) pairs the statement allows for two consecutive runs of one
    Split over two flows: the documented schedule is driven twice over the *same* branch objects
    (every branch is active again in the second run; what a used branch then does is its own
    business and is simply observed). One reading of the two open points is used for both runs."""
    pairs = []
    for stopped_fc in ("at-stop", "at-end"):
        for empty in ("branch-order", "computes-last"):
            branches = build_driveable(names, js)
            pair = []
            for _ in range(2):
                try:
                    out, _info = reference_run(names, js, make_flow(), bufsize, stopped_fc, empty,
                                               branches=branches)
                except Exception as e:  # noqa: an exception of a used branch is an allowed outcome
                    out = exc_repr(e)
                pair.append(out)
                if not isinstance(out, list):
                    break
            pair = tuple(pair)
            if pair not in pairs:
                pairs.append(pair)
    return pairs
