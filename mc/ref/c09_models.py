"""Reference models for C09 (accumulator aggregates; reset equals fresh).

Every model is written from the property statement and the docstrings: it remembers the values filled
since the last reset (a reset is modelled by throwing the model away and making a new one with the
default start value) and says what compute() must yield.  Nothing here imports lena.

A model offers
    fill(value)            value is the plain template (number, tuple or (data, context) pair)
    judge(outcome, objs)   outcome = ("ok", [yielded items]) | ("exc", type name); objs = the real
                           objects that were filled since the last reset (for identity laws)
                           -> list of (kind, feature, expected, observed); kind is "aggregate"/"context"
    abstract()             hashable summary that determines every later expectation
"""
import bisect
import functools
import math
import operator
from fractions import Fraction

REL = 1e-9


def split_value(v):
    """The documented convention: a (data, context) pair is a 2-tuple whose second item is a dict."""
    if isinstance(v, tuple) and len(v) == 2 and isinstance(v[1], dict):
        return v[0], v[1]
    return v, {}


def _exact(x):
    """Exact rational value of an int / float / Decimal / Fraction, None when there is none."""
    try:
        return Fraction(x)
    except (TypeError, ValueError, OverflowError):
        return None


def _fold(start, datas):
    return functools.reduce(operator.add, datas, start)


def _close(got, want, scale=None):
    """|got - want| <= REL * max(|want|, scale) with want an exact Fraction."""
    g = _exact(got)
    if g is None:
        return False
    tol = Fraction(REL) * max(abs(want), Fraction(scale) if scale is not None else 0)
    tol = max(tol, Fraction(1, 10 ** 300))
    return abs(g - want) <= tol


def _fz(x):
    """Small canonical form for abstract states."""
    if isinstance(x, dict):
        return tuple(sorted((repr(k), _fz(v)) for k, v in x.items()))
    if isinstance(x, (list, tuple)):
        return tuple(_fz(v) for v in x)
    if isinstance(x, float):
        return repr(x)
    return x


class Model(object):
    """Common part: the fills since the last reset and the context of the last one."""

    # True for the models of elements that yield "the filled values themselves": they judge the yielded
    # objects by identity (so they must be given the real objects, not snapshots taken at receipt)
    by_identity = False

    def __init__(self):
        self.values = []

    def fill(self, value):
        self.values.append(value)

    @property
    def n(self):
        return len(self.values)

    def datas(self):
        return [split_value(v)[0] for v in self.values]

    def last_context(self):
        return split_value(self.values[-1])[1] if self.values else {}

    # -- as a component of a vector ---------------------------------------------------------------
    # An accumulator used as a component yields a sequence of outputs per compute(); the scalar
    # aggregates yield exactly one (models that can have nothing to yield say so through raises()).
    def n_outputs(self):
        return 1

    def output_ok(self, k, got):
        return k == 0 and self.data_ok(split_value(got)[0])

    def expected_output(self, k):
        return self.expected_data()

    # -- helpers for the judgement --------------------------------------------------------------
    def _one(self, outcome, problems):
        """The single yielded item, or None after recording why there is none."""
        if outcome[0] != "ok":
            problems.append(("aggregate", "raised " + outcome[1], "one value", outcome[1]))
            return None
        if len(outcome[1]) != 1:
            problems.append(("aggregate", "n_outputs", 1, len(outcome[1])))
            return None
        return outcome[1][0]

    def _context(self, ctx, problems, own=None):
        want = dict(self.last_context())
        if own:
            want.update(own)
        if ctx != want:
            problems.append(("context", "context", want, ctx))


class SumModel(Model):
    """Python's sum: start + v1 + v2 + ... from left to right."""

    def __init__(self, start=0):
        Model.__init__(self)
        self.start = start

    def data_ok(self, got):
        datas = self.datas()
        try:
            if got == _fold(self.start, datas) or got == sum(datas, self.start):
                return True
        except TypeError:
            pass
        return False

    def expected_data(self):
        return _fold(self.start, self.datas())

    def judge(self, outcome, objs):
        problems = []
        item = self._one(outcome, problems)
        if problems:
            return problems
        data, ctx = split_value(item)
        if not self.data_ok(data):
            problems.append(("aggregate", "data", self.expected_data(), data))
        self._context(ctx, problems)
        return problems

    def abstract(self):
        return ("sum", _fz(self.expected_data()), type(self.expected_data()).__name__,
                _fz(self.last_context()))


class DSumModel(SumModel):
    """The exact (rational) sum of the filled numbers, no rounding anywhere."""

    def exact(self):
        return sum((Fraction(d) for d in self.datas()), Fraction(self.start))

    def data_ok(self, got):
        want = self.exact()
        if isinstance(got, float):
            # the docstring says "as float": then it has to be the correctly rounded exact sum
            return got == float(want) or Fraction(got) == want
        g = _exact(got)
        return g is not None and g == want

    def expected_data(self):
        return self.exact()

    def abstract(self):
        return ("dsum", self.exact(), _fz(self.last_context()))


class CountModel(Model):
    """Number of filled values (plus the start counter before the first reset); the context of the
    last value is extended by {name: count}."""

    def __init__(self, name="count", start=0):
        Model.__init__(self)
        self.name, self.start = name, start

    def expected_data(self):
        return self.start + self.n

    def data_ok(self, got):
        return got == self.start + self.n

    def judge(self, outcome, objs):
        problems = []
        item = self._one(outcome, problems)
        if problems:
            return problems
        data, ctx = split_value(item)
        want = self.start + self.n
        if not (data == want):
            problems.append(("aggregate", "data", want, data))
        self._context(ctx, problems, own={self.name: want})
        return problems

    def abstract(self):
        return ("count", self.start + self.n, _fz(self.last_context()))


class MeanModel(Model):
    """sum / count as a float; nothing filled: an error, or nothing at all with pass_on_empty.

    extras: the sum algorithm yields further values after the sum (a function of the filled data giving
    the list of them; plain data without context).  Documented: "if the sum_seq yields several values,
    they are all yielded, but only the first is divided by number of events" - every one of them with
    the context of the last filled value."""

    def __init__(self, pass_on_empty=False, exact_sum=False, extras=None):
        Model.__init__(self)
        self.pass_on_empty = pass_on_empty
        self.exact_sum = exact_sum
        self.extras = extras

    def data_ok(self, got):
        datas = self.datas()
        n = len(datas)
        exact = sum(Fraction(d) for d in datas)
        cands = []
        if self.exact_sum:
            cands += [float(exact) / float(n), float(exact / n)]
        else:
            f = _fold(0, datas)
            cands += [float(f) / float(n), f / n, sum(datas) / n, math.fsum(datas) / n]
        try:
            if any(got == c for c in cands):
                return True
        except TypeError:
            return False
        # otherwise: within rel 1e-9 of the exact rational mean (any summation order / algorithm
        # is accepted this way on inputs without catastrophic cancellation)
        return _close(got, exact / n)

    def judge(self, outcome, objs):
        problems = []
        if self.n == 0:
            return self.judge_empty(outcome)
        rest = []
        if self.extras is not None and outcome[0] == "ok" and outcome[1]:
            outcome, rest = ("ok", outcome[1][:1]), outcome[1][1:]
        item = self._one(outcome, problems)
        if problems:
            return problems
        data, ctx = split_value(item)
        if not self.data_ok(data):
            exact = sum(Fraction(d) for d in self.datas()) / self.n
            problems.append(("aggregate", "data", float(exact), data))
        self._context(ctx, problems)
        if self.extras is not None:
            want = self.extras(self.datas())
            if len(rest) != len(want):
                problems.append(("aggregate", "n_outputs", 1 + len(want), 1 + len(rest)))
            else:
                for w, item in zip(want, rest):
                    data, ctx = split_value(item)
                    if not (data == w):
                        problems.append(("aggregate", "further value of the sum algorithm", w, data))
                    self._context(ctx, problems)
        return problems

    def raises(self):
        """compute() has nothing to yield and must raise."""
        return self.n == 0 and not self.pass_on_empty

    def expected_data(self):
        return float(sum(Fraction(d) for d in self.datas()) / self.n) if self.n else None

    def judge_empty(self, outcome):
        if self.pass_on_empty:
            if outcome != ("ok", []):
                return [("aggregate", "empty", "nothing yielded", outcome)]
        elif outcome[0] != "exc":
            return [("aggregate", "empty", "an error (no values were filled)", outcome)]
        return []

    def abstract(self):
        datas = self.datas()
        key = sum(Fraction(d) for d in datas) if self.exact_sum else _fz(_fold(0, datas))
        return ("mean", key, self.n, _fz(self.last_context()))


class VarianceModel(MeanModel):
    """(variance, mean, count): sample variance (n-1 in the denominator) when corrected, else the
    population variance.  Nothing filled, or one value with corrected: an error (or nothing with
    pass_on_empty for the empty sample)."""

    def __init__(self, corrected=True, pass_on_empty=False):
        MeanModel.__init__(self, pass_on_empty=pass_on_empty)
        self.corrected = corrected

    def raises(self):
        return MeanModel.raises(self) or (self.n == 1 and self.corrected)

    def exact(self):
        """(variance, mean, mean of squares) as exact rationals; needs n >= 1 (n >= 2 when corrected)."""
        n = self.n
        xs = [Fraction(d) for d in self.datas()]
        mean = sum(xs) / n
        msq = sum(x * x for x in xs) / n
        var = sum((x - mean) ** 2 for x in xs) / (n - 1 if self.corrected else n)
        return var, mean, msq

    def expected_data(self):
        if self.n == 0 or self.raises():
            return None
        var, mean, _ = self.exact()
        return (float(var), float(mean), self.n)

    def data_problems(self, data):
        """List of (feature, expected, observed) for the yielded (variance, mean, count)."""
        n = self.n
        var, mean, msq = self.exact()
        try:
            gv, gm, gc = data[0], data[1], data[2]
            ok = len(data) == 3
        except (TypeError, IndexError, KeyError):
            ok = False
        if not ok:
            return [("shape", "(variance, mean, count)", data)]
        out = []
        if not _close(gv, var, scale=max(msq, 1)):
            out.append(("variance", float(var), gv))
        if not _close(gm, mean, scale=1):
            out.append(("mean", float(mean), gm))
        if not (gc == n):
            out.append(("count", n, gc))
        return out

    def data_ok(self, got):
        return not self.data_problems(got)

    def judge(self, outcome, objs):
        n = self.n
        if n == 0:
            return self.judge_empty(outcome)
        if n == 1 and self.corrected:
            if outcome[0] != "exc":
                return [("aggregate", "one-value", "an error (corrected variance of one value)", outcome)]
            return []
        problems = []
        item = self._one(outcome, problems)
        if problems:
            return problems
        data, ctx = split_value(item)
        for feature, want, got in self.data_problems(data):
            problems.append(("aggregate", feature, want, got))
        self._context(ctx, problems)
        return problems

    def abstract(self):
        xs = [Fraction(d) for d in self.datas()]
        return ("var", sum(xs), sum(x * x for x in xs), self.n, _fz(self.last_context()))


class VectorModel(Model):
    """Component-wise result of the inner accumulators; context of the last filled vector.

    The k-th value yielded by compute() holds the k-th output of every component (documented: "if
    compute for different components yield different number of results, the longest output is yielded
    (the others are padded with None)"), and every yielded value carries the context of the last filled
    vector."""

    def __init__(self, inner):
        Model.__init__(self)
        self.inner = inner          # list of component models with n_outputs()/output_ok()/expected_output()
        self.inner_may_raise_empty = False

    def fill(self, value):
        Model.fill(self, value)
        data = split_value(value)[0]
        for i, m in enumerate(self.inner):
            m.fill(data[i])

    def judge(self, outcome, objs):
        problems = []
        if any(isinstance(m, MeanModel) and m.raises() for m in self.inner):
            # a component has nothing to yield (no values; one value for a corrected variance)
            if outcome[0] != "exc":
                return [("aggregate", "empty", "an error (a component cannot be computed)", outcome)]
            return []
        if self.n == 0 and any(isinstance(m, MeanModel) for m in self.inner):
            return self.inner[0].judge_empty(outcome)       # pass_on_empty components: nothing
        if outcome[0] != "ok":
            return [("aggregate", "raised " + outcome[1], "values", outcome[1])]
        counts = [m.n_outputs() for m in self.inner]
        if len(outcome[1]) != max(counts):
            return [("aggregate", "n_outputs", max(counts), len(outcome[1]))]
        for k, item in enumerate(outcome[1]):
            data, ctx = split_value(item)
            try:
                comps = list(data)
            except TypeError:
                comps = None
            if comps is None or len(comps) != len(self.inner):
                problems.append(("aggregate", "shape", len(self.inner), data))
            else:
                for m, cnt, c in zip(self.inner, counts, comps):
                    if k >= cnt:
                        if c is not None:
                            problems.append(("aggregate", "component (padding)", None, c))
                    elif not m.output_ok(k, c):
                        problems.append(("aggregate", "component", m.expected_output(k), c))
            self._context(ctx, problems)
        return problems

    def abstract(self):
        return ("vec", tuple(m.abstract() for m in self.inner), _fz(self.last_context()))


class ZipModel(Model):
    """Zip of accumulators: every branch is filled with every value; the results of the branches are
    zipped into one tuple.  The branches here keep the context of the last filled value and add no
    key of their own, so their contexts are equal and the zipped value carries exactly that context
    (no "zip" sub-context of differences)."""

    def __init__(self, inner):
        Model.__init__(self)
        self.inner = inner          # scalar models with data_ok()/expected_data()

    def fill(self, value):
        Model.fill(self, value)
        for m in self.inner:
            m.fill(value)

    def judge(self, outcome, objs):
        problems = []
        if any(isinstance(m, MeanModel) and m.raises() for m in self.inner):
            if outcome[0] != "exc":
                return [("aggregate", "empty", "an error (a branch cannot be computed)", outcome)]
            return []
        item = self._one(outcome, problems)
        if problems:
            return problems
        data, ctx = split_value(item)
        if not isinstance(data, tuple) or len(data) != len(self.inner):
            problems.append(("aggregate", "shape", "a tuple of %d results" % len(self.inner), data))
        else:
            for m, c in zip(self.inner, data):
                if not m.data_ok(c):
                    problems.append(("aggregate", "branch result", m.expected_data(), c))
        self._context(ctx, problems)
        return problems

    def abstract(self):
        return ("zip", tuple(m.abstract() for m in self.inner), _fz(self.last_context()))


class StoreModel(Model):
    """The filled values themselves (the same objects, in fill order), as one list or one by one."""

    by_identity = True

    def __init__(self, as_group=True):
        Model.__init__(self)
        self.as_group = as_group

    # as a component of a vector it is filled with plain components: judged by ==
    def n_outputs(self):
        return 1 if self.as_group else self.n

    def expected_output(self, k):
        return list(self.values) if self.as_group else self.values[k]

    def output_ok(self, k, got):
        try:
            return k < self.n_outputs() and bool(got == self.expected_output(k))
        except Exception:  # noqa: a comparison that fails is no equality
            return False

    def judge(self, outcome, objs):
        problems = []
        if outcome[0] != "ok":
            return [("aggregate", "raised " + outcome[1], "values", outcome[1])]
        if self.as_group:
            item = self._one(outcome, problems)
            if problems:
                return problems
            got = item
        else:
            got = outcome[1]
        try:
            same = len(got) == len(objs) and all(a is b for a, b in zip(got, objs))
        except TypeError:
            same = False
        if not same:
            problems.append(("aggregate", "values", self.values, got))
        return problems

    def abstract(self):
        return ("store", _fz(self.values))


class GroupModel(Model):
    """The filled values themselves, partitioned by the grouping key: every value in exactly one
    group, two values in one group iff their keys are equal.  Order of groups (and inside a group)
    is not part of the statement and is not judged here (the twin comparison sees it)."""

    by_identity = True

    def __init__(self, key):
        Model.__init__(self)
        self.key = key                 # function(context) -> hashable

    def partition(self):
        groups = {}
        for i, v in enumerate(self.values):
            groups.setdefault(self.key(split_value(v)[1]), []).append(i)
        return sorted(groups.values())

    def judge(self, outcome, objs):
        if outcome[0] != "ok":
            return [("aggregate", "raised " + outcome[1], "groups", outcome[1])]
        # the same object may have been filled more than once (small ints are shared objects):
        # hand out its fill indices in order; equal objects have equal keys, so this is harmless
        index = {}
        for i, o in enumerate(objs):
            index.setdefault(id(o), []).append(i)
        used = {}
        got = []
        try:
            for grp in outcome[1]:
                idxs = []
                for x in grp:
                    lst = index.get(id(x), [])
                    k = used.get(id(x), 0)
                    used[id(x)] = k + 1
                    idxs.append(lst[k] if k < len(lst) else -1)
                got.append(sorted(idxs))
        except TypeError:
            return [("aggregate", "shape", "groups of values", outcome[1])]
        if sorted(got) != self.partition():
            return [("aggregate", "groups", self.partition(), sorted(got))]
        return []

    def abstract(self):
        return ("group", _fz(self.values))


class HistogramModel(Model):
    """A dictionary cell -> content.  Lower edge included, upper excluded; a value outside the edges
    changes no cell and is counted in n_out_of_range.  Every fill has weight 1."""

    def __init__(self, edges, bins):
        Model.__init__(self)
        self.edges = edges
        self.multi = isinstance(edges[0], (list, tuple))
        self.axes = edges if self.multi else [edges]
        self.start = bins

    def cell(self, data):
        coords = data if self.multi else [data]
        idx = []
        for x, axis in zip(coords, self.axes):
            if x < axis[0] or x >= axis[-1]:
                return None
            idx.append(bisect.bisect_right(axis, x) - 1)
        return tuple(idx)

    def expected(self):
        import copy
        bins = copy.deepcopy(self.start)
        out = 0
        for d in self.datas():
            c = self.cell(d)
            if c is None:
                out += 1
                continue
            sub = bins
            for i in c[:-1]:
                sub = sub[i]
            sub[c[-1]] += 1
        return bins, out

    def judge(self, outcome, objs):
        problems = []
        item = self._one(outcome, problems)
        if problems:
            return problems
        hist, ctx = split_value(item)
        bins, out = self.expected()
        try:
            gb, ge, go = hist.bins, hist.edges, hist.n_out_of_range
        except AttributeError:
            return [("aggregate", "shape", "a histogram", hist)]
        if gb != bins:
            problems.append(("aggregate", "bins", bins, gb))
        if ge != self.edges:
            problems.append(("aggregate", "edges", self.edges, ge))
        if go != out:
            problems.append(("aggregate", "n_out_of_range", out, go))
        self._context(ctx, problems)
        return problems

    def abstract(self):
        bins, out = self.expected()
        return ("hist", _fz(bins), out, _fz(self.last_context()))


class GraphModel(Model):
    """The filled points (sorted unless sort=False); the context of the last point extended only by
    the element's own keys "scale" and "dim"."""

    OWN = ("scale", "dim")

    def __init__(self, sort=True):
        Model.__init__(self)
        self.sort = sort

    def judge(self, outcome, objs):
        problems = []
        item = self._one(outcome, problems)
        if problems:
            return problems
        gr, ctx = split_value(item)
        pts = self.datas()
        if self.sort:
            pts = sorted(pts)
        try:
            got = list(gr.points)
        except (AttributeError, TypeError):
            return [("aggregate", "shape", "a graph", gr)]
        if got != pts:
            problems.append(("aggregate", "points", pts, got))
        want = self.last_context()
        rest = {k: v for k, v in ctx.items() if k not in self.OWN}
        want_rest = {k: v for k, v in want.items() if k not in self.OWN}
        if rest != want_rest or any(ctx.get(k) != want[k] for k in self.OWN if k in want):
            problems.append(("context", "context", want, ctx))
        return problems

    def abstract(self):
        return ("graph", _fz(self.values if not self.sort else sorted(self.datas())),
                _fz(self.last_context()))


class BlockModel(Model):
    """FillRequest(el, bufsize=b, reset=r) driven block-aligned: a "fill" of this model is one block
    of b values followed by request(); it yields what the wrapped accumulator yields for the values
    filled since the accumulator was last reset (by request() when r, or by an explicit reset())."""

    def __init__(self, make_inner, auto_reset):
        Model.__init__(self)
        self.make_inner = make_inner
        self.inner = make_inner()
        self.auto_reset = auto_reset
        self.blocks = 0

    def fill_block(self, block):
        for v in block:
            self.inner.fill(v)
        self.blocks += 1

    def judge_block(self, outcome):
        problems = self.inner.judge(outcome, None)
        if self.auto_reset:
            self.inner = self.make_inner()
        return problems

    @property
    def n(self):
        return self.inner.n

    def abstract(self):
        return ("block", self.inner.abstract())
