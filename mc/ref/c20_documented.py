"""C20, law "documented-error": error cases that lena's docstrings document with a named exception.

Every entry quotes the docstring (file:line of the ``:exc:`` role) and gives the exception classes it
names and a list of thunks, one for every member of a small pool of arguments of the documented invalid
kind. The law: each thunk raises, and what it raises is an instance of one of the named classes (the
property: "invalid arguments and missing keys are reported with the documented LenaException
subclasses"). Cases the docstrings leave open are not in the table.

The table was made by going through every ``:exc:`` role of every docstring under lena/ (the counter
``exc_roles`` below counts them on the tree under test). An error case is also taken when the docstring
hands the argument over to another lena callable whose docstring names the exception ("*select* is
converted to a Selector, see its specifications"; GroupBy.fill makes its key with
lena.context.to_string) - the documented exception of the inner callable is then the documented
exception of the outer call, unless the outer docstring names another one (then either is accepted).
Where a docstring names a Python exception (``:exc:`AttributeError```), or says that the exception of
a user's callable is raised as it is, the named class is looked up in builtins.
Not in the table, with the reason: the ROOT elements (lena.input, WriteROOTTree: ROOT is absent);
Cache.drop_cache (needs a file that is readable and can not be removed: an environment fault, C18);
GroupPlots and _GroupBy (deprecated since 0.6, GroupPlots warns on construction); update_nested with a
recursive dictionary ("may be raised"); PDFToPNG/LaTeXToPDF (external programs are never started).

Two measurements make the bound of the table visible (no verdict depends on them):
``raising_handlers`` lists every ``except`` clause under lena/ whose body raises (the places where lena
translates an error into the one it documents), and ``HandlerTrace`` records which of them the table
really enters; a fault inside such a handler (a wrong attribute of the caught exception, a wrong class
raised) can be seen only by a case that enters it.
"""
import ast
import builtins
import os
import sys
import warnings

import lena.context
import lena.core
import lena.flow
import lena.math
import lena.meta
import lena.output
import lena.structures
import lena.variables
from lena.structures import histogram, graph


def _h(bins=None):
    return histogram([0, 1, 2], list(bins) if bins is not None else [1, 2])


def _consume(x):
    return list(x)


def exception_class(name):
    """The class a docstring names: a lena exception, else a Python one."""
    cls = getattr(lena.core, name, None)
    if cls is None:
        cls = getattr(builtins, name)
    return cls


# ---- measurements ------------------------------------------------------------------------------

def _lena_sources(root):
    for dp, dns, fns in os.walk(os.path.join(root, "lena")):
        dns.sort()
        for fn in sorted(fns):
            if fn.endswith(".py"):
                yield os.path.join(dp, fn)


def _parse(path):
    with open(path, encoding="utf-8") as f:
        src = f.read()
    with warnings.catch_warnings():
        warnings.simplefilter("ignore")       # invalid escape sequences in old docstrings
        return ast.parse(src)


def raising_handlers(root):
    """{(real path, first line of the handler body): "lena/x.py:LINE except TYPES"} for every except
    clause under *root*/lena whose body contains a raise statement."""
    out = {}
    for path in _lena_sources(root):
        rel = os.path.relpath(path, root)
        for node in ast.walk(_parse(path)):
            if not isinstance(node, ast.ExceptHandler):
                continue
            if not any(isinstance(x, ast.Raise) for b in node.body for x in ast.walk(b)):
                continue
            what = ast.unparse(node.type) if node.type is not None else "<any>"
            out[(os.path.realpath(path), node.body[0].lineno)] = "%s:%d except %s" % (rel, node.lineno, what)
    return out


def exc_roles(root):
    """Number of ``:exc:`` roles in the docstrings under *root*/lena."""
    n = 0
    for path in _lena_sources(root):
        for node in ast.walk(_parse(path)):
            if isinstance(node, (ast.Module, ast.ClassDef, ast.FunctionDef)):
                n += (ast.get_docstring(node, clean=False) or "").count(":exc:")
    return n


class HandlerTrace(object):
    """Records which of *handlers* (keys of raising_handlers) are entered while it is active."""

    def __init__(self, handlers):
        self.handlers = handlers
        self.files = {}
        for path, _ in handlers:
            self.files[path] = True
        self.entered = set()
        self._real = {}
        self._old = None

    def _global(self, frame, event, arg):
        fn = frame.f_code.co_filename
        real = self._real.get(fn)
        if real is None:
            real = self._real[fn] = os.path.realpath(fn)
        if real not in self.files:
            return None

        def local(frame, event, arg):
            if event == "line" and (real, frame.f_lineno) in self.handlers:
                self.entered.add((real, frame.f_lineno))
            return local
        return local

    def __enter__(self):
        self._old = sys.gettrace()
        sys.settrace(self._global)
        return self

    def __exit__(self, *exc):
        sys.settrace(self._old)
        return False


# ---- pools shared by several entries -----------------------------------------------------------

class _Plain(object):
    def __repr__(self):
        return "<plain object>"


def unserializable_items():
    """Items that JSON can not represent ("for example, a set"), one of every common kind."""
    import decimal
    return [{1, 2}, frozenset(["a"]), _Plain(), b"x", 1j, abs, decimal.Decimal("0.5"), range(2)]


def contexts_holding(item):
    """The item as a value, in a nested dictionary and inside a list, always under the key "k"."""
    return [{"k": item, "z": 1}, {"k": {"n": item}, "z": 1}, {"k": [1, item], "z": 1}]


def entries():
    E = []

    def add(doc, exc, *thunks, **kw):
        E.append({"doc": doc, "exc": tuple(exc), "thunks": list(thunks), "place": kw.get("place")})

    def add_placed(doc, exc, placed):
        """*placed*: [(thunk, place)] - one entry per place class (the place is a part of the cause: a
        fault that depends on where the invalid item stands is told from one that does not)."""
        by = {}
        for thunk, place in placed:
            by.setdefault(place, []).append(thunk)
        for place in sorted(by):
            add("%s [%s]" % (doc, place), exc, *by[place], place=place)

    # ---- lena.math
    bad_intervals = [(), (1,), (0, 1, 2), [0, 1, 2, 3], "abc"]
    add("math/utils.py:24 clip: a_min > a_max or interval has length more than 2", ["LenaValueError"],
        *([lambda iv=iv: lena.math.clip(0.5, iv) for iv in [(0, 1, 2), [0, 1, 2, 3], "abc"]]
          + [lambda: lena.math.clip(0.5, (1, 0)), lambda: lena.math.clip(0.5, [2.0, 1.0])]))
    add("math/utils.py:26 clip: interval is not a container", ["LenaTypeError"],
        *[lambda iv=iv: lena.math.clip(0.5, iv) for iv in [1, None, 2.5, object()]])
    add("math/utils.py:71 isclose: neither numbers nor lists/tuples of same dimensions", ["LenaTypeError"],
        lambda: lena.math.isclose("a", 1), lambda: lena.math.isclose(1, None),
        lambda: lena.math.isclose({}, {}), lambda: lena.math.isclose(object(), 1.0))
    add("math/meshes.py:46 flatten/refine_mesh item is not a list", ["LenaTypeError"],
        lambda: lena.math.md_map(abs, 5), lambda: lena.math.md_map(abs, "ab"),
        lambda: lena.math.md_map(abs, (1, 2)))
    add("math/vector3.py:124 ordering comparisons of vector3 are prohibited", ["LenaTypeError"],
        lambda: lena.math.vector3(1, 2, 3) < lena.math.vector3(1, 2, 4),
        lambda: lena.math.vector3(1, 2, 3) <= lena.math.vector3(1, 2, 4),
        lambda: lena.math.vector3(1, 2, 3) > lena.math.vector3(1, 2, 4),
        lambda: lena.math.vector3(1, 2, 3) >= lena.math.vector3(1, 2, 4))
    add("math/elements.py:83 Mean.compute with nothing filled", ["LenaZeroDivisionError"],
        lambda: _consume(lena.math.Mean().compute()),
        lambda: _consume(lena.math.Mean(sum_seq=lena.math.DSum()).compute()))
    add("math/elements.py:330 VarianceMeanCount.compute with nothing filled", ["LenaZeroDivisionError"],
        lambda: _consume(lena.math.VarianceMeanCount().compute()))

    # ---- the placement axis (mc/ref/c20_places.py): the invalid item at EVERY place of a container
    # argument whose items the docstring speaks about - which argument, which index, which depth
    from mc.ref import c20_places
    # isclose: "a and b must be either numbers or lists/tuples of same dimensions (may be nested) ...
    # Otherwise LenaTypeError is raised. For containers, isclose is called elementwise."
    not_numbers = ["1", None, {}, _Plain(), b"x"]
    add_placed("math/utils.py:71 isclose: an item of (nested) containers that is not a number", ["LenaTypeError"],
               [(lambda a=a, b=b: lena.math.isclose(a, b), place)
                for item in not_numbers for a, b, place in c20_places.pairs_with_item(item)])
    # "if some subarray of edges contains not strictly increasing values"
    bad_edges = c20_places.edges_with_bad_step()
    add_placed("structures/hist_functions.py:96 check_edges_increasing: one step that does not increase",
               ["LenaValueError"],
               [(lambda e=e: lena.structures.check_edges_increasing(e), place.rsplit("/", 2)[0])
                for e, place in bad_edges])
    add_placed("structures/histogram.py:101 histogram: edges with one step that does not increase",
               ["LenaValueError"],
               [(lambda e=e: histogram(e), place.rsplit("/", 2)[0]) for e, place in bad_edges])
    # Filter: "selector can be a container. In this case its items are converted to selectors" /
    # "If the conversion could not be done, LenaTypeError is raised"
    not_selectors = [5, None, 2.5, {"a": 1}]
    placed_selectors = [(sel, place) for item in not_selectors
                        for sel, place in c20_places.sequences_with_item(item, abs)]
    add_placed("flow/filter.py:13 Filter: an inconvertible item at every place of a container", ["LenaTypeError"],
               [(lambda s=s: lena.flow.Filter(s), place) for s, place in placed_selectors])
    add_placed("structures/split_into_bins.py:173 MapBins: an inconvertible item at every place of select_bins",
               ["LenaTypeError"],
               [(lambda s=s: lena.structures.MapBins(abs, select_bins=s), place) for s, place in placed_selectors])

    # ---- lena.flow
    add("flow/functions.py:66 seq_map one_result with not exactly one result", ["LenaValueError"],
        lambda: lena.flow.seq_map(lena.core.Sequence(lena.flow.Filter(lambda v: False)), [1, 2]),
        lambda: lena.flow.seq_map(lena.core.Sequence(lena.core.Split([abs, abs])), [1]))
    add("flow/group_scale.py:90 GroupScale()(group) with a group that is not iterable", ["LenaValueError"],
        *[lambda g=g: lena.flow.GroupScale(1)(g) for g in [5, None, 2.5]])
    # flow/group_by.py:73 speaks of formatting keys, which GroupBy no longer has (since 0.6): not in the table
    add("flow/zip.py:26 Zip fields of another length than sequences", ["LenaTypeError"],
        lambda: lena.flow.Zip([[1], [2]], fields=["a"]),
        lambda: lena.flow.Zip([[1], [2]], fields=["a", "b", "c"]),
        lambda: lena.flow.Zip([[1]], fields=[]))
    add("flow/filter.py:13 Filter: selector cannot be converted to a Selector", ["LenaTypeError"],
        *[lambda s=s: lena.flow.Filter(s) for s in [5, None, 2.5, {"a": 1}]])
    add("flow/group_plots.py:118 MapGroup: other keyword arguments", ["LenaTypeError"],
        lambda: lena.flow.MapGroup(abs, map_scalar=False),
        lambda: lena.flow.MapGroup(abs, map_scalars=False, other=1),
        lambda: lena.flow.MapGroup(abs, foo=None))

    # ---- lena.structures
    add("structures/histogram.py:101 histogram: edges not increasing or shorter than 2", ["LenaValueError"],
        *[lambda e=e: histogram(e) for e in [[0], [], [0, 0], [1, 0], [0, 1, 1], [[0, 1], [1]], [[0, 1], [2, 1]]]])
    add("structures/histogram.py:61 histogram: bins of a wrong shape", ["LenaValueError"],
        lambda: histogram([0, 1, 2], [1]), lambda: histogram([0, 1, 2], [1, 2, 3]),
        lambda: histogram([0, 1, 2], [[1, 2]]),      # ("a simple check": only the outer shape is demanded)
        lambda: histogram([[0, 1], [0, 1, 2]], [[1, 2], [3, 4]]),
        lambda: histogram([[0, 1, 2], [0, 1]], [[1]]),
        lambda: histogram([[0, 1], [0, 1], [0, 1]], [[[1]], [[2]]]))
    add("structures/histogram.py:346 histogram.scale(other) with zero scale", ["LenaValueError"],
        lambda: histogram([0, 1, 2]).scale(1), lambda: histogram([0, 1, 2], [0, 0]).scale(2.0),
        lambda: histogram([[0, 1], [0, 1]]).scale(1))
    add("structures/histogram.py:415 Histogram: both bins and make_bins", ["LenaTypeError"],
        lambda: lena.structures.Histogram([0, 1, 2], bins=[0, 0], make_bins=lambda: [0, 0]))
    add("structures/hist_functions.py:96 check_edges_increasing", ["LenaValueError"],
        *[lambda e=e: lena.structures.check_edges_increasing(e)
          for e in [[0], [], [0, 0], [2, 1], [[0, 1], [1]], [[0, 1], [1, 1]]]])
    add("structures/hist_functions.py:140 get_bin_on_index: index error", ["LenaIndexError"],
        lambda: lena.structures.get_bin_on_index(2, [1, 2]),
        lambda: lena.structures.get_bin_on_index((0, 5), [[1, 2]]),
        lambda: lena.structures.get_bin_on_index([3], [1, 2]))
    add("structures/hist_functions.py:248 get_bin_on_value: arg and edges of different length", ["LenaValueError"],
        lambda: lena.structures.get_bin_on_value([0.5], [[0, 1], [0, 1]]),
        lambda: lena.structures.get_bin_on_value([0.5, 0.5, 0.5], [[0, 1], [0, 1]]),
        lambda: lena.structures.get_bin_on_value((), [[0, 1], [0, 1]]))
    add("structures/graph.py:80 graph: incorrect initialization arguments", ["LenaTypeError", "LenaValueError"],
        lambda: graph([[0, 1], [1]]),                       # coordinates of different lengths
        lambda: graph([[0, 1], [1, 2]], field_names="x"),    # fewer names than coordinates
        lambda: graph([[0, 1], [1, 2]], field_names=("x", "x")),
        lambda: graph([[0, 1], [1, 2]], field_names=5),
        lambda: graph([]))
    add("structures/graph.py:202 graph.scale(other) with unknown or zero scale", ["LenaValueError"],
        lambda: graph([[0, 1], [1, 2]]).scale(2), lambda: graph([[0, 1], [1, 2]], scale=0).scale(2),
        lambda: graph([[0, 1], [1, 2]], scale=0.0).scale(1.5))
    add("structures/elements.py:32 HistToGraph: make_value not callable", ["LenaTypeError"],
        *[lambda m=m: lena.structures.HistToGraph(make_value=m) for m in [5, "mean", [1]]])
    add("structures/elements.py:32 HistToGraph: wrong get_coordinate", ["LenaValueError"],
        *[lambda g=g: lena.structures.HistToGraph(get_coordinate=g) for g in ["centre", "", "LEFT"]])
    add("structures/split_into_bins.py:59 IterateBins: create_edges_str not callable", ["LenaTypeError"],
        *[lambda c=c: lena.structures.IterateBins(create_edges_str=c) for c in [5, "s", [1]]])
    add("structures/split_into_bins.py:305 SplitIntoBins: edges not increasing", ["LenaValueError"],
        *[lambda e=e: lena.structures.SplitIntoBins(lena.math.Sum(), lena.variables.Variable("x", abs), e)
          for e in [[0], [1, 0], [0, 0, 1]]])
    add("structures/split_into_bins.py:307 SplitIntoBins: other argument problems", ["LenaTypeError"],
        lambda: lena.structures.SplitIntoBins(lena.math.Sum(), abs, [0, 1, 2]),
        lambda: lena.structures.SplitIntoBins(5, lena.variables.Variable("x", abs), [0, 1, 2]))
    add("structures/elements.py:132 ScaleTo on a structure with zero or unknown scale",
        ["LenaValueError", "LenaAttributeError"],
        lambda: lena.structures.ScaleTo(1)(histogram([0, 1, 2])),
        lambda: lena.structures.ScaleTo(1)(graph([[0, 1], [1, 2]])),
        lambda: lena.structures.ScaleTo(2)((graph([[0, 1], [1, 2]], scale=0), {})))

    # ---- lena.variables
    add("variables/variable.py:91 Variable: getter not callable", ["LenaTypeError"],
        *[lambda g=g: lena.variables.Variable("x", g) for g in [5, None, "abs", [abs]]])
    add("variables/variable.py:328 Compose/Combine: arguments are not Variables", ["LenaTypeError"],
        lambda: lena.variables.Combine(abs, name="c"), lambda: lena.variables.Compose(abs, name="c"),
        lambda: lena.variables.Combine(lena.variables.Variable("x", abs), 5, name="c"))

    # ---- lena.core
    add("core/adapters.py:85 Call: el is not callable and has no such method", ["LenaTypeError"],
        *[lambda el=el: lena.core.Call(el) for el in [5, None, "s", [1]]])
    add("core/adapters.py:155 FillCompute: no fill/compute (or request)", ["LenaTypeError"],
        *[lambda el=el: lena.core.FillCompute(el) for el in [5, abs, None]])
    add("core/adapters.py:314 FillRequest: el has no fill/request or fill/compute", ["LenaTypeError"],
        *[lambda el=el: lena.core.FillRequest(el, bufsize=1, buffer_input=True) for el in [5, abs, None]])
    add("core/adapters.py:655 Run: el has no run and cannot be cast", ["LenaTypeError"],
        *[lambda el=el: lena.core.Run(el) for el in [5, None, "s", [1]]])
    add("core/adapters.py:749 SourceEl: el is neither callable nor iterable", ["LenaTypeError"],
        *[lambda el=el: lena.core.SourceEl(el) for el in [5, None, 2.5]])
    add("core/fill_compute_seq.py:80 FillComputeSeq without a FillCompute element", ["LenaTypeError"],
        lambda: lena.core.FillComputeSeq(abs), lambda: lena.core.FillComputeSeq(),
        lambda: lena.core.FillComputeSeq(abs, abs))
    add("core/fill_request_seq.py:42 FillRequestSeq without a FillRequest element", ["LenaTypeError"],
        lambda: lena.core.FillRequestSeq(abs, bufsize=1, buffer_input=True),
        lambda: lena.core.FillRequestSeq(abs, abs, bufsize=1, buffer_input=True))
    add("core/split.py:187 Split: wrong initialization arguments", ["LenaTypeError", "LenaValueError"],
        lambda: lena.core.Split(5), lambda: lena.core.Split([abs], bufsize=0),
        lambda: lena.core.Split([abs], bufsize=-1), lambda: lena.core.Split([abs], bufsize="a"),
        lambda: lena.core.Split([5]))

    # ---- lena.context
    add("context/functions.py:260 get_recursively without default: key missing", ["LenaKeyError"],
        lambda: lena.context.get_recursively({"a": 1}, "b"),
        lambda: lena.context.get_recursively({"a": {"b": 1}}, "a.c"),
        lambda: lena.context.get_recursively({"a": 1}, "a.b"),
        lambda: lena.context.get_recursively({}, ["a"]),
        lambda: lena.context.get_recursively({"a": 1}, {"b": "c"}))
    add("context/functions.py:279 get_recursively: keys neither string, dict nor list", ["LenaTypeError"],
        *[lambda k=k: lena.context.get_recursively({"a": 1}, k, default=0) for k in [5, None, 2.5, ("a",)]])
    add("context/functions.py:281 get_recursively: a dictionary key with several items", ["LenaValueError"],
        lambda: lena.context.get_recursively({"a": 1}, {"a": "b", "c": "d"}, default=0),
        lambda: lena.context.get_recursively({"a": 1}, {"a": {"b": "c", "d": "e"}}, default=0))
    add("context/functions.py:381 intersection: an argument is not a dictionary", ["LenaTypeError"],
        lambda: lena.context.intersection({"a": 1}, 5), lambda: lena.context.intersection([1], {"a": 1}),
        lambda: lena.context.intersection({"a": 1}, None), lambda: lena.context.intersection("a", "a"))
    add("context/functions.py:137 format_context: format_str is not a string", ["LenaTypeError"],
        *[lambda f=f: lena.context.format_context(f) for f in [5, None, ["{{a}}"], {"a": 1}]])
    add("context/functions.py:136 format_context: a simple check of the braces fails", ["LenaValueError"],
        *[lambda f=f: lena.context.format_context(f) for f in ["{{a}", "{a}}", "{{a}}}}", "{{{{a}}"]])
    add("context/functions.py:140 format_context()(context): a key is missing", ["LenaKeyError"],
        lambda: lena.context.format_context("{{a}}")({"b": 1}),
        lambda: lena.context.format_context("{{a.b}}")({"a": 1}),
        lambda: lena.context.format_context("{{a}}_{{b}}")({"a": 1}))
    add("context/functions.py:616 update_recursively: value given with a dictionary other", ["LenaValueError"],
        lambda: lena.context.update_recursively({}, {"a": 1}, 5),
        lambda: lena.context.update_recursively({"a": 1}, {}, None))
    add("context/update_context.py:83 UpdateContext: subcontext is not a string", ["LenaTypeError"],
        *[lambda s=s: lena.context.UpdateContext(s, 1) for s in [5, None, ["a"], {"a": 1}]])
    add("context/update_context.py:84 UpdateContext: subcontext is empty", ["LenaValueError"],
        lambda: lena.context.UpdateContext("", 1), lambda: lena.context.UpdateContext("", "{{a}}"))
    add("context/update_context.py:65 UpdateContext: default together with raise_on_missing", ["LenaValueError"],
        lambda: lena.context.UpdateContext("a", "{{b}}", default=0, raise_on_missing=True))
    add("context/update_context.py:47 UpdateContext: a missing key with raise_on_missing", ["LenaKeyError"],
        lambda: lena.context.UpdateContext("a", "{{b}}", raise_on_missing=True)((1, {"c": 1})),
        lambda: lena.context.UpdateContext("a", "{{b.c}}", raise_on_missing=True)((1, {"b": 1})))
    add("context/context.py:46 Context attribute that is missing", ["LenaAttributeError"],
        lambda: lena.context.Context({"a": 1}).b, lambda: lena.context.Context().a)
    add("context/include_exclude_tree.py:30 improper subkeys", ["LenaValueError"],
        *[lambda k=k: lena.context.make_include_exclude_tree([k], [])
          for k in ["a..b", ".a", "a.", "."]])

    # ---- lena.output / lena.meta
    add("output/write.py:50 Write: existing_unchanged together with overwrite", ["LenaValueError"],
        lambda: lena.output.Write("out", existing_unchanged=True, overwrite=True))
    add("output/make_filename.py:40 MakeFilename: a name is not a string", ["LenaTypeError"],
        *[lambda a=a: lena.output.MakeFilename(a) for a in [5, ["a"], {"a": 1}]])
    add("output/make_filename.py:50 MakeFilename: no arguments / other keyword arguments", ["LenaTypeError"],
        lambda: lena.output.MakeFilename(), lambda: lena.output.MakeFilename(filename=5),
        lambda: lena.output.MakeFilename(suffix=5), lambda: lena.output.MakeFilename(prefix=["p"]))
    _more_entries(add)
    return E


class _FC(object):
    """A minimal FillCompute element."""
    def fill(self, value):
        pass

    def compute(self):
        return iter(())


class _Raiser(object):
    """A user's callable that raises *exc* (kept as an object: no __name__)."""
    def __init__(self, exc):
        self.exc = exc

    def __call__(self, value):
        raise self.exc("from the user's callable")


def _fr():
    return lena.core.FillRequest(lena.math.Sum(), bufsize=1, reset=True, buffer_input=True)


def _fill_all(el, values):
    for v in values:
        el.fill(v)


def _slice_fill(args, n):
    s = lena.flow.Slice(*args)
    sink = lena.flow.StoreFilled() if hasattr(lena.flow, "StoreFilled") else _FC()
    for i in range(n):
        s.fill_into(sink, i)


def _more_entries(add):
    """Second pass over the :exc: roles: cases reached through another documented callable, run-time
    cases of elements (fill, run, __call__) and the remaining constructors."""
    from lena.variables import Variable
    items = unserializable_items()

    # ---- contexts that can not be made a key (to_string and the elements that document its use)
    add("context/functions.py:527 to_string: an item is unserializable", ["LenaValueError"],
        *[lambda c=c: lena.context.to_string(c) for it in items for c in contexts_holding(it)])
    # GroupBy.fill: "a group key is calculated via group_by and merge ... LenaValueError is raised" when
    # no key can be made for the value; the key of a context is its to_string. The selected part of the
    # context holds the item in every case (with the default arguments nothing is selected: not a case).
    gb_args = [dict(group_by="k"), dict(group_by=("k", "y")), dict(group_by="", merge="z"),
               dict(group_by="", merge=("y", "z"))]
    add("flow/group_by.py:73 GroupBy.fill: no key can be made from the selected context", ["LenaValueError"],
        *[lambda c=c, kw=kw: lena.flow.GroupBy(**kw).fill((1, c))
          for it in items for c in contexts_holding(it) for kw in gb_args])
    add("flow/group_by.py:73 GroupBy.fill after values that were grouped", ["LenaValueError"],
        *[lambda c=c: _fill_all(lena.flow.GroupBy("k"), [(1, {"k": "a"}), (2, {"k": "b"}), (3, c)])
          for it in items[:3] for c in contexts_holding(it)])

    # ---- lena.context
    add("context/functions.py:226 format_update_with: d lacks a key needed to format value", ["LenaKeyError"],
        lambda: lena.context.format_update_with("a", "{{b}}", {"c": 1}),
        lambda: lena.context.format_update_with("a.b", "{{c.d}}", {"c": 1}),
        lambda: lena.context.format_update_with("a", "{{b}}_{{c}}", {"b": 1}))
    add("context/functions.py:434 str_to_dict: one part and no value", ["LenaValueError"],
        lambda: lena.context.str_to_dict("a"), lambda: lena.context.str_to_dict("abc d"))
    add("context/update_context.py:87 UpdateContext: value=True and braces not only at the ends",
        ["LenaValueError"],
        *[lambda u=u: lena.context.UpdateContext("a", u, value=True)
          for u in ["{{b}}_{{c}}", "x{{b}}", "{{b}}x", "b", "{{}}"]])
    add("context/update_context.py:47 UpdateContext: a context value that is missing, no default",
        ["LenaKeyError"],
        lambda: lena.context.UpdateContext("a", "{{b}}", value=True)((1, {"c": 1})),
        lambda: lena.context.UpdateContext("a", "{{b.c}}", value=True)((1, {"b": {"d": 1}})),
        lambda: lena.context.UpdateContext("a", "{{b.c}}", value=True)((1, {"b": 1})),
        lambda: lena.context.UpdateContext("a", "{{b}}", value=True, raise_on_missing=True)(1))
    add("context/update_context.py:65 UpdateContext: two of default, skip_on_missing, raise_on_missing",
        ["LenaValueError"],
        lambda: lena.context.UpdateContext("a", "{{b}}", default=0, skip_on_missing=True),
        lambda: lena.context.UpdateContext("a", "{{b}}", skip_on_missing=True, raise_on_missing=True),
        lambda: lena.context.UpdateContext("a", "{{b}}", value=True, default=0, raise_on_missing=True))
    add("context/context.py:48 Context: a private attribute", ["AttributeError"],
        lambda: lena.context.Context({"a": 1})._b, lambda: lena.context.Context()._formatter_)

    # ---- lena.meta
    add("meta/elements.py:26 SetContext: value could not be formatted", ["LenaKeyError"],
        lambda: lena.meta.SetContext("a", "{{b}}")._get_context(),
        lambda: lena.core.Sequence(lena.meta.SetContext("a", "{{b}}"))._get_context(),
        lambda: lena.core.Sequence(lena.meta.SetContext("c", 1),
                                   lena.meta.SetContext("a", "{{b.d}}"))._get_context())

    # ---- lena.core
    add("core/fill_seq.py:42 FillSeq: empty, last has no fill, one not convertible to FillInto",
        ["LenaTypeError"],
        lambda: lena.core.FillSeq(), lambda: lena.core.FillSeq(abs), lambda: lena.core.FillSeq(_FC(), abs),
        *[lambda a=a: lena.core.FillSeq(a, _FC()) for a in [5, None, "s"]])
    add("core/fill_compute_seq.py:80 FillComputeSeq: the part before the FillCompute element is wrong",
        ["LenaTypeError"],
        *[lambda a=a: lena.core.FillComputeSeq(a, _FC()) for a in [5, None, "s"]])
    add("core/fill_compute_seq.py:80 FillComputeSeq: the part after the FillCompute element is wrong",
        ["LenaTypeError"],
        *[lambda a=a: lena.core.FillComputeSeq(_FC(), a) for a in [5, None, "s"]])
    add("core/fill_request_seq.py:42 FillRequestSeq: the sequences before and after are wrong",
        ["LenaTypeError"],
        *([lambda a=a: lena.core.FillRequestSeq(a, _fr(), bufsize=1, buffer_input=True) for a in [5, None, "s"]]
          + [lambda a=a: lena.core.FillRequestSeq(_fr(), a, bufsize=1, buffer_input=True) for a in [5, None, "s"]]))
    add("core/fill_request_seq.py:41 FillRequestSeq: unknown keyword arguments were received", ["LenaTypeError"],
        lambda: lena.core.FillRequestSeq(_fr(), bufsize=1, buffer_input=True, other=1),
        lambda: lena.core.FillRequestSeq(abs, _fr(), bufsize=1, buffer_input=True, buf_size=2))
    add("core/adapters.py:111 FillCompute: named methods are missing or not callable", ["LenaTypeError"],
        lambda: lena.core.FillCompute(_FC(), fill="fil"), lambda: lena.core.FillCompute(_FC(), compute="calc"),
        lambda: lena.core.FillCompute(lena.math.Sum(), fill="_value"))
    add("core/adapters.py:307 FillRequest: bufsize is not a natural number", ["LenaValueError"],
        *[lambda b=b: lena.core.FillRequest(lena.math.Sum(), bufsize=b, reset=True, buffer_input=True)
          for b in [0, -1, 1.5]])
    add("core/adapters.py:311 FillRequest: reset is True and el has no reset", ["LenaTypeError"],
        lambda: lena.core.FillRequest(_FC(), bufsize=1, reset=True, buffer_input=True))
    add("core/split.py:253 Split()(): not all sequences are Sources", ["LenaAttributeError"],
        lambda: _consume(lena.core.Split([abs])()), lambda: _consume(lena.core.Split([_FC()])()),
        lambda: _consume(lena.core.Split([abs, _FC()])()), lambda: _consume(lena.core.Split([])()))

    # ---- lena.flow
    # Filter: "if the conversion could not be done"; the items of a container are converted as well
    bad_selectors = [5, None, 2.5, {"a": 1}, [5], (None,), [abs, 5], (abs, [2.5]), [("a", {})]]
    add("flow/filter.py:13 Filter: an item of a container cannot be converted to a Selector", ["LenaTypeError"],
        *[lambda s=s: lena.flow.Filter(s) for s in bad_selectors[4:]])
    add("structures/split_into_bins.py:173 MapBins: incorrect arguments", ["LenaTypeError"],
        *([lambda a=a: lena.structures.MapBins(a) for a in [5, None, "s"]]
          + [lambda s=s: lena.structures.MapBins(abs, select_bins=s) for s in bad_selectors]))
    # "in case of an exception the selector raises that exception"
    for exc in ["ZeroDivisionError", "KeyError", "LenaValueError", "AttributeError"]:
        cls = exception_class(exc)
        add("flow/selectors.py:33 Selector()(value): the exception of the callable is raised (%s)" % exc, [exc],
            lambda cls=cls: lena.flow.Selector(_Raiser(cls))(1),
            lambda cls=cls: lena.flow.Selector([_Raiser(cls)])(1),
            lambda cls=cls: lena.flow.Selector((abs, _Raiser(cls)))(1),
            lambda cls=cls: lena.flow.Not(_Raiser(cls))(1))
    add("flow/iterators.py:206 Slice.fill_into: the filling should stop", ["LenaStopFill"],
        *[lambda a=a, n=n: _slice_fill(a, n)
          for a, n in [((0,), 1), ((1,), 2), ((2,), 3), ((1, 2), 3), ((0, 3, 2), 4), ((None, 2), 3)]])
    add("flow/group_plots.py:144 MapGroup.run: data and context.group of different lengths", ["LenaRuntimeError"],
        lambda: _consume(lena.flow.MapGroup(abs).run([([1, 2], {"group": [{}]})])),
        lambda: _consume(lena.flow.MapGroup(abs).run([([1], {"group": [{}, {}]})])),
        lambda: _consume(lena.flow.MapGroup(abs, map_scalars=False).run([([1, 2, 3], {"group": [{}, {}]})])))
    add("flow/group_plots.py:147 MapGroup.run: seq gives different numbers of results for the items",
        ["LenaRuntimeError"],
        lambda: _consume(lena.flow.MapGroup(lena.flow.Filter(lambda v: v[0] > 1))
                         .run([([1, 2], {"group": [{}, {}]})])),
        lambda: _consume(lena.flow.MapGroup(lena.flow.Filter(lambda v: v[0] > 1))
                         .run([([2, 1, 2], {"group": [{}, {}, {}]})])))
    add("flow/group_scale.py:19 scale_to/GroupScale: an item can not be rescaled", ["LenaValueError"],
        # zero scale, unknown scale
        lambda: lena.flow.GroupScale(2)([(_h([0, 0]), {})]),
        lambda: lena.flow.GroupScale(2)([(_h(), {}), (_h([0, 0]), {})]),
        lambda: lena.flow.scale_to(2, [(_h([0, 0]), {})]),
        lambda: lena.flow.GroupScale(2)([(graph([[0, 1], [1, 2]]), {})]),
        lambda: lena.flow.GroupScale(2, allow_unknown_scale=True)([(_h([0, 0]), {})]),
        lambda: lena.flow.GroupScale(2)([(lena.structures.Graph([(0, 1)]), {})]),
        lambda: lena.flow.GroupScale(2, allow_zero_scale=True)([(lena.structures.Graph([(0, 1)]), {})]),
        lambda: lena.flow.GroupScale(2)([(lena.structures.Graph([(0, 1)], scale=0), {})]))

    # ---- lena.structures
    add("structures/graph.py:80 graph: error fields before coordinates, without or with several coordinates",
        ["LenaTypeError", "LenaValueError"],
        lambda: graph([[0, 1], [1, 2], [1, 1]], field_names=("x", "error_x", "y")),
        lambda: graph([[0, 1], [1, 2], [1, 1]], field_names="error_x, x, y"),
        lambda: graph([[0, 1], [1, 2], [1, 1]], field_names=("x", "y", "error_z")),
        lambda: graph([[0, 1], [1, 2], [1, 1]], field_names=("x", "x_a", "error_x_a")))
    add("structures/graph.py:563 graph.scale(): the scale was not set", ["LenaAttributeError"],
        lambda: lena.structures.Graph().scale(), lambda: lena.structures.Graph([(0, 1)]).scale(),
        lambda: lena.structures.Graph([(0, 1)]).scale(2))
    add("structures/graph.py:574 graph.scale(other): zero scale", ["LenaValueError"],
        lambda: lena.structures.Graph([(0, 1)], scale=0).scale(1),
        lambda: lena.structures.Graph([(0, 1), (1, 2)], scale=0.0).scale(3))
    add("structures/histogram.py:308 histogram.scale(other): zero entries", ["LenaValueError"],
        lambda: _h([0, 0]).scale(1), lambda: histogram([[0, 1], [0, 1]], [[0]]).scale(2))
    add("structures/hist_functions.py:553 iter_cells: a range index out of the possible ones", ["LenaValueError"],
        lambda: _consume(lena.structures.iter_cells(_h(), ranges=((-1, 1),))),
        lambda: _consume(lena.structures.iter_cells(_h(), ranges=((0, 3),))),
        lambda: _consume(lena.structures.iter_cells(_h(), ranges=((5, None),))))
    add("structures/hist_functions.py:555 iter_cells: both ranges and coord_ranges", ["LenaTypeError"],
        lambda: _consume(lena.structures.iter_cells(_h(), ranges=((0, 1),), coord_ranges=((0, 1),))))

    # ---- lena.variables
    add("variables/variable.py:87 Variable: an attribute is missing", ["AttributeError"],
        lambda: Variable("x", abs).latex_name, lambda: Variable("x", abs, unit="m").units,
        lambda: Variable("x", abs)._private,
        lambda: lena.variables.Combine(Variable("x", abs), Variable("y", abs), name="xy").unit)
    add("variables/variable.py:91 Variable: getter is a Variable", ["LenaTypeError"],
        lambda: Variable("y", Variable("x", abs)))

    # ---- lena.output
    add("output/write.py:178 Write.run: context.output.filename is present but empty", ["LenaRuntimeError"],
        lambda: _consume(lena.output.Write("out").run([("text", {"output": {"filename": ""}})])),
        lambda: _consume(lena.output.Write("out", existing_unchanged=True)
                         .run([("text", {"output": {"filename": "", "fileext": "txt"}})])))
    add("output/render_latex.py:96 RenderLaTeX: no template name given and none in the context",
        ["LenaRuntimeError"],
        lambda: _consume(lena.output.RenderLaTeX(select_data=lambda v: True).run([(1, {"a": 1})])),
        lambda: _consume(lena.output.RenderLaTeX("").run([(1, {"output": {"filetype": "csv"}})])))
