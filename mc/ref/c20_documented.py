"""C20, law "documented-error": error cases that lena's docstrings document with a named exception.

Every entry quotes the docstring (file:line of the ``:exc:`` role) and gives the exception classes it
names and a list of thunks, one for every member of a small pool of arguments of the documented invalid
kind. The law: each thunk raises, and what it raises is an instance of one of the named classes (the
property: "invalid arguments and missing keys are reported with the documented LenaException
subclasses"). Cases the docstrings leave open are not in the table.
"""
import lena.context
import lena.core
import lena.flow
import lena.math
import lena.output
import lena.structures
import lena.variables
from lena.structures import histogram, graph


def _h(bins=None):
    return histogram([0, 1, 2], list(bins) if bins is not None else [1, 2])


def _consume(x):
    return list(x)


def entries():
    E = []

    def add(doc, exc, *thunks):
        E.append({"doc": doc, "exc": tuple(exc), "thunks": list(thunks)})

    # ---- lena.math
    bad_intervals = [(), (1,), (0, 1, 2), [0, 1, 2, 3], "abc"]
    add("math/utils.py:24 clip: a_min > a_max or interval has length more than 2", ["LenaValueError"],
        *([lambda iv=iv: lena.math.clip(0.5, iv) for iv in [(0, 1, 2), [0, 1, 2, 3], "abc"]]
          + [lambda: lena.math.clip(0.5, (1, 0)), lambda: lena.math.clip(0.5, [2.0, 1.0])]))
    add("math/utils.py:26 clip: interval is not a container", ["LenaTypeError"],
        *[lambda iv=iv: lena.math.clip(0.5, iv) for iv in [1, None, 2.5, object()]])
    add("math/utils.py:71 isclose: neither numbers nor lists/tuples of same dimensions", ["LenaTypeError"],
        lambda: lena.math.isclose("a", 1), lambda: lena.math.isclose(1, None),
        lambda: lena.math.isclose({}, {}), lambda: lena.math.isclose(object(), 1.0))
    add("math/meshes.py:46 flatten/refine_mesh item is not a list", ["LenaTypeError"],
        lambda: lena.math.md_map(abs, 5), lambda: lena.math.md_map(abs, "ab"),
        lambda: lena.math.md_map(abs, (1, 2)))
    add("math/vector3.py:124 ordering comparisons of vector3 are prohibited", ["LenaTypeError"],
        lambda: lena.math.vector3(1, 2, 3) < lena.math.vector3(1, 2, 4),
        lambda: lena.math.vector3(1, 2, 3) <= lena.math.vector3(1, 2, 4),
        lambda: lena.math.vector3(1, 2, 3) > lena.math.vector3(1, 2, 4),
        lambda: lena.math.vector3(1, 2, 3) >= lena.math.vector3(1, 2, 4))
    add("math/elements.py:83 Mean.compute with nothing filled", ["LenaZeroDivisionError"],
        lambda: _consume(lena.math.Mean().compute()),
        lambda: _consume(lena.math.Mean(sum_seq=lena.math.DSum()).compute()))
    add("math/elements.py:330 VarianceMeanCount.compute with nothing filled", ["LenaZeroDivisionError"],
        lambda: _consume(lena.math.VarianceMeanCount().compute()))

    # ---- lena.flow
    add("flow/functions.py:66 seq_map one_result with not exactly one result", ["LenaValueError"],
        lambda: lena.flow.seq_map(lena.core.Sequence(lena.flow.Filter(lambda v: False)), [1, 2]),
        lambda: lena.flow.seq_map(lena.core.Sequence(lena.core.Split([abs, abs])), [1]))
    add("flow/group_scale.py:90 GroupScale()(group) with a group that is not iterable", ["LenaValueError"],
        *[lambda g=g: lena.flow.GroupScale(1)(g) for g in [5, None, 2.5]])
    # flow/group_by.py:73 speaks of formatting keys, which GroupBy no longer has (since 0.6): not in the table
    add("flow/zip.py:26 Zip fields of another length than sequences", ["LenaTypeError"],
        lambda: lena.flow.Zip([[1], [2]], fields=["a"]),
        lambda: lena.flow.Zip([[1], [2]], fields=["a", "b", "c"]),
        lambda: lena.flow.Zip([[1]], fields=[]))
    add("flow/filter.py:13 Filter: selector cannot be converted to a Selector", ["LenaTypeError"],
        *[lambda s=s: lena.flow.Filter(s) for s in [5, None, 2.5, {"a": 1}]])
    add("flow/group_plots.py:118 MapGroup: other keyword arguments", ["LenaTypeError"],
        lambda: lena.flow.MapGroup(abs, map_scalar=False),
        lambda: lena.flow.MapGroup(abs, map_scalars=False, other=1),
        lambda: lena.flow.MapGroup(abs, foo=None))

    # ---- lena.structures
    add("structures/histogram.py:101 histogram: edges not increasing or shorter than 2", ["LenaValueError"],
        *[lambda e=e: histogram(e) for e in [[0], [], [0, 0], [1, 0], [0, 1, 1], [[0, 1], [1]], [[0, 1], [2, 1]]]])
    add("structures/histogram.py:61 histogram: bins of a wrong shape", ["LenaValueError"],
        lambda: histogram([0, 1, 2], [1]), lambda: histogram([0, 1, 2], [1, 2, 3]),
        lambda: histogram([0, 1, 2], [[1, 2]]),      # ("a simple check": only the outer shape is demanded)
        lambda: histogram([[0, 1], [0, 1, 2]], [[1, 2], [3, 4]]),
        lambda: histogram([[0, 1, 2], [0, 1]], [[1]]),
        lambda: histogram([[0, 1], [0, 1], [0, 1]], [[[1]], [[2]]]))
    add("structures/histogram.py:346 histogram.scale(other) with zero scale", ["LenaValueError"],
        lambda: histogram([0, 1, 2]).scale(1), lambda: histogram([0, 1, 2], [0, 0]).scale(2.0),
        lambda: histogram([[0, 1], [0, 1]]).scale(1))
    add("structures/histogram.py:415 Histogram: both bins and make_bins", ["LenaTypeError"],
        lambda: lena.structures.Histogram([0, 1, 2], bins=[0, 0], make_bins=lambda: [0, 0]))
    add("structures/hist_functions.py:96 check_edges_increasing", ["LenaValueError"],
        *[lambda e=e: lena.structures.check_edges_increasing(e)
          for e in [[0], [], [0, 0], [2, 1], [[0, 1], [1]], [[0, 1], [1, 1]]]])
    add("structures/hist_functions.py:140 get_bin_on_index: index error", ["LenaIndexError"],
        lambda: lena.structures.get_bin_on_index(2, [1, 2]),
        lambda: lena.structures.get_bin_on_index((0, 5), [[1, 2]]),
        lambda: lena.structures.get_bin_on_index([3], [1, 2]))
    add("structures/hist_functions.py:248 get_bin_on_value: arg and edges of different length", ["LenaValueError"],
        lambda: lena.structures.get_bin_on_value([0.5], [[0, 1], [0, 1]]),
        lambda: lena.structures.get_bin_on_value([0.5, 0.5, 0.5], [[0, 1], [0, 1]]),
        lambda: lena.structures.get_bin_on_value((), [[0, 1], [0, 1]]))
    add("structures/graph.py:80 graph: incorrect initialization arguments", ["LenaTypeError", "LenaValueError"],
        lambda: graph([[0, 1], [1]]),                       # coordinates of different lengths
        lambda: graph([[0, 1], [1, 2]], field_names="x"),    # fewer names than coordinates
        lambda: graph([[0, 1], [1, 2]], field_names=("x", "x")),
        lambda: graph([[0, 1], [1, 2]], field_names=5),
        lambda: graph([]))
    add("structures/graph.py:202 graph.scale(other) with unknown or zero scale", ["LenaValueError"],
        lambda: graph([[0, 1], [1, 2]]).scale(2), lambda: graph([[0, 1], [1, 2]], scale=0).scale(2),
        lambda: graph([[0, 1], [1, 2]], scale=0.0).scale(1.5))
    add("structures/elements.py:32 HistToGraph: make_value not callable", ["LenaTypeError"],
        *[lambda m=m: lena.structures.HistToGraph(make_value=m) for m in [5, "mean", [1]]])
    add("structures/elements.py:32 HistToGraph: wrong get_coordinate", ["LenaValueError"],
        *[lambda g=g: lena.structures.HistToGraph(get_coordinate=g) for g in ["centre", "", "LEFT"]])
    add("structures/split_into_bins.py:59 IterateBins: create_edges_str not callable", ["LenaTypeError"],
        *[lambda c=c: lena.structures.IterateBins(create_edges_str=c) for c in [5, "s", [1]]])
    add("structures/split_into_bins.py:305 SplitIntoBins: edges not increasing", ["LenaValueError"],
        *[lambda e=e: lena.structures.SplitIntoBins(lena.math.Sum(), lena.variables.Variable("x", abs), e)
          for e in [[0], [1, 0], [0, 0, 1]]])
    add("structures/split_into_bins.py:307 SplitIntoBins: other argument problems", ["LenaTypeError"],
        lambda: lena.structures.SplitIntoBins(lena.math.Sum(), abs, [0, 1, 2]),
        lambda: lena.structures.SplitIntoBins(5, lena.variables.Variable("x", abs), [0, 1, 2]))
    add("structures/elements.py:132 ScaleTo on a structure with zero or unknown scale",
        ["LenaValueError", "LenaAttributeError"],
        lambda: lena.structures.ScaleTo(1)(histogram([0, 1, 2])),
        lambda: lena.structures.ScaleTo(1)(graph([[0, 1], [1, 2]])),
        lambda: lena.structures.ScaleTo(2)((graph([[0, 1], [1, 2]], scale=0), {})))

    # ---- lena.variables
    add("variables/variable.py:91 Variable: getter not callable", ["LenaTypeError"],
        *[lambda g=g: lena.variables.Variable("x", g) for g in [5, None, "abs", [abs]]])
    add("variables/variable.py:328 Compose/Combine: arguments are not Variables", ["LenaTypeError"],
        lambda: lena.variables.Combine(abs, name="c"), lambda: lena.variables.Compose(abs, name="c"),
        lambda: lena.variables.Combine(lena.variables.Variable("x", abs), 5, name="c"))

    # ---- lena.core
    add("core/adapters.py:85 Call: el is not callable and has no such method", ["LenaTypeError"],
        *[lambda el=el: lena.core.Call(el) for el in [5, None, "s", [1]]])
    add("core/adapters.py:155 FillCompute: no fill/compute (or request)", ["LenaTypeError"],
        *[lambda el=el: lena.core.FillCompute(el) for el in [5, abs, None]])
    add("core/adapters.py:314 FillRequest: el has no fill/request or fill/compute", ["LenaTypeError"],
        *[lambda el=el: lena.core.FillRequest(el, bufsize=1, buffer_input=True) for el in [5, abs, None]])
    add("core/adapters.py:655 Run: el has no run and cannot be cast", ["LenaTypeError"],
        *[lambda el=el: lena.core.Run(el) for el in [5, None, "s", [1]]])
    add("core/adapters.py:749 SourceEl: el is neither callable nor iterable", ["LenaTypeError"],
        *[lambda el=el: lena.core.SourceEl(el) for el in [5, None, 2.5]])
    add("core/fill_compute_seq.py:80 FillComputeSeq without a FillCompute element", ["LenaTypeError"],
        lambda: lena.core.FillComputeSeq(abs), lambda: lena.core.FillComputeSeq(),
        lambda: lena.core.FillComputeSeq(abs, abs))
    add("core/fill_request_seq.py:42 FillRequestSeq without a FillRequest element", ["LenaTypeError"],
        lambda: lena.core.FillRequestSeq(abs, bufsize=1, buffer_input=True),
        lambda: lena.core.FillRequestSeq(abs, abs, bufsize=1, buffer_input=True))
    add("core/split.py:187 Split: wrong initialization arguments", ["LenaTypeError", "LenaValueError"],
        lambda: lena.core.Split(5), lambda: lena.core.Split([abs], bufsize=0),
        lambda: lena.core.Split([abs], bufsize=-1), lambda: lena.core.Split([abs], bufsize="a"),
        lambda: lena.core.Split([5]))

    # ---- lena.context
    add("context/functions.py:260 get_recursively without default: key missing", ["LenaKeyError"],
        lambda: lena.context.get_recursively({"a": 1}, "b"),
        lambda: lena.context.get_recursively({"a": {"b": 1}}, "a.c"),
        lambda: lena.context.get_recursively({"a": 1}, "a.b"),
        lambda: lena.context.get_recursively({}, ["a"]),
        lambda: lena.context.get_recursively({"a": 1}, {"b": "c"}))
    add("context/functions.py:279 get_recursively: keys neither string, dict nor list", ["LenaTypeError"],
        *[lambda k=k: lena.context.get_recursively({"a": 1}, k, default=0) for k in [5, None, 2.5, ("a",)]])
    add("context/functions.py:281 get_recursively: a dictionary key with several items", ["LenaValueError"],
        lambda: lena.context.get_recursively({"a": 1}, {"a": "b", "c": "d"}, default=0),
        lambda: lena.context.get_recursively({"a": 1}, {"a": {"b": "c", "d": "e"}}, default=0))
    add("context/functions.py:381 intersection: an argument is not a dictionary", ["LenaTypeError"],
        lambda: lena.context.intersection({"a": 1}, 5), lambda: lena.context.intersection([1], {"a": 1}),
        lambda: lena.context.intersection({"a": 1}, None), lambda: lena.context.intersection("a", "a"))
    add("context/functions.py:137 format_context: format_str is not a string", ["LenaTypeError"],
        *[lambda f=f: lena.context.format_context(f) for f in [5, None, ["{{a}}"], {"a": 1}]])
    add("context/functions.py:136 format_context: a simple check of the braces fails", ["LenaValueError"],
        *[lambda f=f: lena.context.format_context(f) for f in ["{{a}", "{a}}", "{{a}}}}", "{{{{a}}"]])
    add("context/functions.py:140 format_context()(context): a key is missing", ["LenaKeyError"],
        lambda: lena.context.format_context("{{a}}")({"b": 1}),
        lambda: lena.context.format_context("{{a.b}}")({"a": 1}),
        lambda: lena.context.format_context("{{a}}_{{b}}")({"a": 1}))
    add("context/functions.py:616 update_recursively: value given with a dictionary other", ["LenaValueError"],
        lambda: lena.context.update_recursively({}, {"a": 1}, 5),
        lambda: lena.context.update_recursively({"a": 1}, {}, None))
    add("context/update_context.py:83 UpdateContext: subcontext is not a string", ["LenaTypeError"],
        *[lambda s=s: lena.context.UpdateContext(s, 1) for s in [5, None, ["a"], {"a": 1}]])
    add("context/update_context.py:84 UpdateContext: subcontext is empty", ["LenaValueError"],
        lambda: lena.context.UpdateContext("", 1), lambda: lena.context.UpdateContext("", "{{a}}"))
    add("context/update_context.py:65 UpdateContext: default together with raise_on_missing", ["LenaValueError"],
        lambda: lena.context.UpdateContext("a", "{{b}}", default=0, raise_on_missing=True))
    add("context/update_context.py:47 UpdateContext: a missing key with raise_on_missing", ["LenaKeyError"],
        lambda: lena.context.UpdateContext("a", "{{b}}", raise_on_missing=True)((1, {"c": 1})),
        lambda: lena.context.UpdateContext("a", "{{b.c}}", raise_on_missing=True)((1, {"b": 1})))
    add("context/context.py:46 Context attribute that is missing", ["LenaAttributeError"],
        lambda: lena.context.Context({"a": 1}).b, lambda: lena.context.Context().a)
    add("context/include_exclude_tree.py:30 improper subkeys", ["LenaValueError"],
        *[lambda k=k: lena.context.make_include_exclude_tree([k], [])
          for k in ["a..b", ".a", "a.", "."]])

    # ---- lena.output / lena.meta
    add("output/write.py:50 Write: existing_unchanged together with overwrite", ["LenaValueError"],
        lambda: lena.output.Write("out", existing_unchanged=True, overwrite=True))
    add("output/make_filename.py:40 MakeFilename: a name is not a string", ["LenaTypeError"],
        *[lambda a=a: lena.output.MakeFilename(a) for a in [5, ["a"], {"a": 1}]])
    add("output/make_filename.py:50 MakeFilename: no arguments / other keyword arguments", ["LenaTypeError"],
        lambda: lena.output.MakeFilename(), lambda: lena.output.MakeFilename(filename=5),
        lambda: lena.output.MakeFilename(suffix=5), lambda: lena.output.MakeFilename(prefix=["p"]))
    return E
