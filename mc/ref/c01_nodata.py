"""C01: elements without data among the arguments of Sequence / Source (law "nodata").

lena.meta documents elements that "set static context for this sequence" (SetContext) or store it
(StoreContext). They take no part in the data flow: they have no stream transformation, so the
composition of the elements of a pipeline is the composition of the other ones, wherever such an
element stands - between two elements, at either end, inside a nested Sequence, in the tail of a
Source and also before its generating element (lena's own tests build Source(SetContext(..), first,
...)). The generating element of a Source is the first element that has data.

This module only PLACES such elements into the pipeline forms of the check (trees of element
indexes): a leaf "@name" stands for a fresh element without data, a list for a nested Sequence.
The oracle is the differential relation of the regroup law: the same result as the flat Sequence
of the elements with data. Nothing of lena's control flow is copied.
"""
import json

import lena.meta


# kinds of elements without data: one that sets and passes on static context, one that only receives it
NODATA = {
    "@SetContext": lambda: lena.meta.SetContext("c01.k", 1),
    "@StoreContext": lambda: lena.meta.StoreContext(),
}
NODATA_ORDER = ["@SetContext", "@StoreContext"]


def is_nodata(leaf):
    return isinstance(leaf, str) and leaf in NODATA


def build(leaf):
    return NODATA[leaf]()


def _copy(tree):
    return json.loads(json.dumps(tree))


def slots(tree, path=()):
    """Every place where one more argument can stand in the (nested) argument lists of *tree*:
    (path to the list, position in it), the outer list first, left to right."""
    out = [(path, pos) for pos in range(len(tree) + 1)]
    for i, item in enumerate(tree):
        if isinstance(item, list):
            out.extend(slots(item, path + (i,)))
    return out


def insert(tree, slot, leaf):
    path, pos = slot
    tree = _copy(tree)
    node = tree
    for i in path:
        node = node[i]
    node.insert(pos, _copy(leaf))
    return tree


class _Alternate(object):
    """The kinds of elements without data in turn."""

    def __init__(self):
        self.n = 0

    def __call__(self):
        leaf = NODATA_ORDER[self.n % len(NODATA_ORDER)]
        self.n += 1
        return leaf


def saturate(tree, nxt):
    """An element without data in EVERY slot of *tree* (kinds alternate)."""
    out = [nxt()]
    for item in tree:
        out.append(saturate(item, nxt) if isinstance(item, list) else item)
        out.append(nxt())
    return out


# the parts of a form that hold arguments: name -> is it a tree (else: the list of elements without
# data that stand BEFORE the generating element of a Source)
def _parts(form):
    """(name, is_tree) of the argument lists of a base form, outermost call first."""
    top = form["top"]
    if top == "sequence":
        return [("tree", True)]
    if top.startswith("source-nested"):
        return [("pre", False), ("tree", True), ("pre_inner", False), ("inner", True)]
    return [("pre", False), ("tree", True)]


def _explicit(form):
    """The base form with its argument lists written out (a nested Source gets its two trees)."""
    f = {"top": form["top"], "tree": _copy(form["tree"])}
    if form["top"].startswith("source-nested"):
        k = form["k"]
        f["inner"], f["tree"] = f["tree"][:k], f["tree"][k:]
        f["pre_inner"] = []
    if form["top"] != "sequence":
        f["pre"] = []
    return f


def _label(form, what):
    f = dict(form)
    f["kind"] = "nodata/" + what
    f["law"] = "nodata"
    return f


def single(form, sequences_of_one=True):
    """The base form with ONE element without data, at every slot and of every kind. With
    *sequences_of_one*, in the slots of the trees (not before a generating element, which would make
    it the generating element) also a nested Sequence that holds nothing but an element without data."""
    out = []
    base = _explicit(form)
    for name, is_tree in _parts(form):
        if not is_tree:
            for leaf in NODATA_ORDER:
                f = _copy(base)
                f[name] = [leaf]
                out.append(_label(f, "before-first" if name == "pre" else "before-inner-first"))
            continue
        for slot in slots(base[name]):
            for leaf in NODATA_ORDER + ([[NODATA_ORDER[0]]] if sequences_of_one else []):
                f = _copy(base)
                f[name] = insert(base[name], slot, leaf)
                nested = bool(slot[0]) or name == "inner"
                out.append(_label(f, ("sequence-of-one" if isinstance(leaf, list) else "one")
                                  + ("-nested" if nested else "")))
    return out


def before_first(form):
    """Only the slots before the generating element(s) of a Source form, every kind."""
    return [f for f in single(form) if f["kind"].startswith("nodata/before")]


def saturated(form):
    """The base form with an element without data in every slot at once."""
    f = _explicit(form)
    nxt = _Alternate()
    for name, is_tree in _parts(form):
        f[name] = saturate(f[name], nxt) if is_tree else [nxt()]
    return _label(f, "everywhere")
