"""Shared builders for the C01 and C05 checks: element factories (always fresh objects), flows,
result capture and comparison.

Everything here is deliberately boring: an element *spec* is a short string, `build(spec)` returns
a brand new lena object for it, a flow spec is (kind, m). Nothing of lena's control flow is copied.
"""
import re

import lena.core
import lena.flow
import lena.math
import lena.structures
import lena.variables

from mc.instrument import freeze


# ---------------------------------------------------------------------------------------------------
# values

def is_pair(value):
    return isinstance(value, tuple) and len(value) == 2 and isinstance(value[1], dict)


def data_of(value):
    return value[0] if is_pair(value) else value


def inc(value):
    """Total callable: works on bare data and on (data, context) pairs."""
    if is_pair(value):
        return (value[0] + 1, value[1])
    return value + 1


def plus10(value):
    if is_pair(value):
        return (value[0] + 10, value[1])
    return value + 10


def even(value):
    return data_of(value) % 2 == 0


def nothing(value):
    return False


def tag(value):
    """A post-processing callable that works on any result (number, list, histogram, named tuple)."""
    if is_pair(value):
        return (("tag", value[0]), value[1])
    return ("tag", value)


def make_flow(kind, m):
    """A fresh flow of m values -1, 0, 1, ...: bare ints or pairs with private contexts.
    (Starting at -1 makes falsy results such as inc(-1) == 0 appear.)"""
    if kind == "bare":
        return list(range(-1, m - 1))
    if kind == "ctx":
        return [(i, {"i": i}) for i in range(-1, m - 1)]
    if kind == "none":
        # None is a value like any other (never an end marker): at every even index, also first
        return [None if i % 2 else i for i in range(-1, m - 1)]
    raise ValueError(kind)


FLOW_KINDS = ("bare", "ctx")
# flows with None values are used for the shorter programs only (elements that compute with the data
# raise the same TypeError under every driver, so such cases decide less)
FLOW_KINDS_SHORT = ("bare", "ctx", "none")


# ---------------------------------------------------------------------------------------------------
# element factories

_SLICE = re.compile(r"^Slice\((.*)\)$")


def _parse_slice(spec):
    m = _SLICE.match(spec)
    args = []
    for a in m.group(1).split(","):
        a = a.strip()
        args.append(None if a == "None" else int(a))
    return tuple(args)


def slice_args(spec):
    return _parse_slice(spec)


def _variable():
    return lena.variables.Variable("dbl", lambda d: d * 2, type="coord")


_FACTORIES = {
    # plain callables and adapters around them
    "inc": lambda: inc,
    "Call(inc)": lambda: lena.core.Call(inc),
    "Variable": _variable,
    "tag": lambda: tag,
    # selecting elements
    "Filter(even)": lambda: lena.flow.Filter(even),
    "Filter(nothing)": lambda: lena.flow.Filter(nothing),
    "RunIf": lambda: lena.flow.RunIf(even, plus10),
    # run elements that look at the whole flow
    "Count": lambda: lena.flow.Count(),
    "Reverse": lambda: lena.flow.Reverse(),
    "End": lambda: lena.flow.End(),
    # accumulators
    "Sum": lambda: lena.math.Sum(),
    "DSum": lambda: lena.math.DSum(),
    "Mean": lambda: lena.math.Mean(),
    "Mean(pass_on_empty)": lambda: lena.math.Mean(pass_on_empty=True),
    "VarianceMeanCount": lambda: lena.math.VarianceMeanCount(),
    "VarianceMeanCount(pass_on_empty)": lambda: lena.math.VarianceMeanCount(pass_on_empty=True),
    "FillCompute(Count)": lambda: lena.core.FillCompute(lena.flow.Count()),
    "StoreFilled": lambda: lena.flow.StoreFilled(),
    "StoreFilled(one_by_one)": lambda: lena.flow.StoreFilled(yield_as_a_group=False),
    "GroupBy": lambda: lena.flow.GroupBy(),
    "GroupBy(i)": lambda: lena.flow.GroupBy("i"),
    "Histogram": lambda: lena.structures.Histogram([0, 2, 4, 8]),
    "Run(Sum)": lambda: lena.core.Run(lena.math.Sum()),
    # nested sequences
    "Sequence()": lambda: lena.core.Sequence(),
    "Split([])": lambda: lena.core.Split([]),
    "Split([inc,Sum],2)": lambda: lena.core.Split([inc, lena.math.Sum()], bufsize=2),
}


def build(spec):
    """A fresh lena element (or plain callable) for *spec*."""
    if spec.startswith("Slice("):
        return lena.flow.Slice(*_parse_slice(spec))
    return _FACTORIES[spec]()


def known(spec):
    return spec.startswith("Slice(") or spec in _FACTORIES


# ---------------------------------------------------------------------------------------------------
# running and comparing

def canon(values):
    """Canonical comparable form of a list of results. Histograms and decimals are reduced to plain
    data first so that two separately computed results compare by content."""
    return freeze(_plain(values))


def _plain(x, depth=0):
    import decimal
    if depth > 30:
        return repr(x)
    if isinstance(x, lena.structures.histogram):
        return ("histogram", _plain(x.edges, depth + 1), _plain(x.bins, depth + 1))
    if isinstance(x, decimal.Decimal):
        return ("Decimal", str(x))
    if isinstance(x, tuple) and hasattr(x, "_fields"):
        return ("namedtuple", type(x).__name__) + tuple(_plain(v, depth + 1) for v in x)
    if isinstance(x, tuple):
        return tuple(_plain(v, depth + 1) for v in x)
    if isinstance(x, list):
        return [_plain(v, depth + 1) for v in x]
    if isinstance(x, dict):
        return {k: _plain(v, depth + 1) for k, v in x.items()}
    return x


def outcome(thunk):
    """Run *thunk* (which returns an iterable of results) to the end.
    Returns ("ok", canonical form, raw list) or ("exc", exception type name, None)."""
    try:
        raw = list(thunk())
    except Exception as e:  # compared by type only (R3)
        return ("exc", type(e).__name__, None)
    return ("ok", canon(raw), raw)


def same(a, b):
    return a[0] == b[0] and a[1] == b[1]


def show(o, limit=400):
    if o[0] == "exc":
        return "raised " + o[1]
    s = repr(_plain(o[2]))
    return s if len(s) <= limit else s[:limit] + "..."


def diff_kind(a, b):
    if a[0] == "exc" and b[0] == "exc":
        return "exception-types-differ"
    if a[0] != b[0]:
        return "exception-vs-values"
    return "values-differ"
