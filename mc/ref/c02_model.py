"""Reference model and helpers for C02 (laziness: demand-driven consumption, bounded buffering).

Nothing here looks at *when* lena pulls a value.  The model only uses lena elements as *eager
functions on finite lists* (fresh standalone element, whole list in, whole list out) and derives from
them, by brute force over a discriminating set of continuations, how many input values *determine*
the first k outputs of an element.  The demand of a pipeline is the composition of the demands of its
elements (each element is judged as demand-driven on its own input), with the two documented
allowances of the property statement: Split consumes whole blocks of *bufsize* values, and the end
of a Slice with non-negative arguments is found by itertools.islice within max(start, stop) values.

A small hand-written demand function per element kind is kept as a cross-check of the brute force.
"""
import copy
import json
import weakref

import lena.context
import lena.core
import lena.flow
import lena.output
import lena.variables

END = 10 ** 6     # "the end of the input has to be observed"
ANY = 10 ** 7     # no bound follows from the statement (only observed, never judged)


class RefError(Exception):
    """The reference could not be evaluated (pipeline not applicable to this flow)."""


class RefMismatch(Exception):
    """The block-schedule model of Split disagrees with the eager Split (C03's business)."""


class Runaway(BaseException):
    """Raised by the instrumented source: the pipeline pulled beyond the watchdog limit."""


# ------------------------------------------------------------------------------------------------
# values

class V(object):
    """Weak-referenceable data value; identity matters, *i* is what predicates look at."""
    __slots__ = ("i", "__weakref__")

    def __init__(self, i):
        self.i = i

    def __repr__(self):
        return "V(%d)" % self.i

    def __deepcopy__(self, memo):
        return V(self.i)


def data_of(v):
    return v[0] if isinstance(v, tuple) else v


def make_value(i, style):
    return V(i) if style == "bare" else (V(i), {"s": i})


def desc(v):
    """Hashable description of a flow value."""
    if isinstance(v, tuple) and len(v) == 2 and isinstance(v[1], dict):
        d, c = v
        if not isinstance(d, V):
            raise RefError("data part is not a V: %r" % (d,))
        return (d.i, json.dumps(c, sort_keys=True, default=repr))
    if not isinstance(v, V):
        raise RefError("value is not a V: %r" % (v,))
    return (v.i, None)


def undesc(t):
    i, c = t
    return V(i) if c is None else (V(i), json.loads(c))


def source_descs(n, style):
    return tuple((i, None) if style == "bare" else (i, json.dumps({"s": i})) for i in range(n))


# ------------------------------------------------------------------------------------------------
# stdout sink (Print)

class Sink(object):
    """Replacement for sys.stdout while a shard runs: every write is an observable event."""

    def __init__(self):
        self.log = None

    def write(self, s):
        if self.log is not None:
            self.log.append("P")
        return len(s)

    def flush(self):
        pass


SINK = Sink()


# ------------------------------------------------------------------------------------------------
# element builders (fresh objects on every call; callables log their invocations)

def _mk_id(log, label):
    def f_id(v):
        log.append(("c", label, data_of(v).i))
        return v
    return f_id


def _mk_inc(log, label):
    def f_inc(v):
        d = data_of(v)
        log.append(("c", label, d.i))
        n = V(d.i + 1)
        return (n, v[1]) if isinstance(v, tuple) else n
    return f_inc


def _mk_pred(log, label, which):
    rem = 0 if which == "even" else 1

    def pred(v):
        d = data_of(v)
        log.append(("c", label, d.i))
        return d.i % 2 == rem
    return pred


def _mk_getter(log, label):
    def getter(d):
        log.append(("c", label, d.i))
        return d
    return getter


def build_element(spec, log, label):
    kind = spec[0]
    if kind == "call":
        return _mk_id(log, (label, "f")) if spec[1] == "id" else _mk_inc(log, (label, "f"))
    if kind == "var":
        return lena.variables.Variable("x", _mk_getter(log, (label, "g")))
    if kind == "filter":
        return lena.flow.Filter(_mk_pred(log, (label, "p"), spec[1]))
    if kind == "slice":
        return lena.flow.Slice(*spec[1])
    if kind == "count":
        return lena.flow.Count()
    if kind == "runif":
        inner = [build_element(s, log, (label, "in", j)) for j, s in enumerate(spec[2])]
        return lena.flow.RunIf(_mk_pred(log, (label, "p"), spec[1]), *inner)
    if kind == "print":
        return lena.flow.Print()
    if kind == "context":
        return lena.context.Context()
    if kind == "upd":
        if spec[1] == "simple":
            return lena.context.UpdateContext("a.b", 1)
        return lena.context.UpdateContext("a.c", "{{s}}_x")
    if kind == "mkfn":
        return lena.output.MakeFilename("out_{{s}}")
    if kind == "esplit":
        # "If seqs is empty, Split acts as an empty Sequence and yields all values it receives"
        return lena.core.Split([], bufsize=spec[1])
    if kind == "split":
        b, copy_buf, branches = spec[1], spec[2], spec[3]
        seqs = [build_branch(br, log, (label, "b", bi)) for bi, br in enumerate(branches)]
        return lena.core.Split(seqs, bufsize=b, copy_buf=copy_buf)
    raise ValueError("unknown element spec %r" % (spec,))


def build_branch(specs, log, label):
    els = [build_element(s, log, (label, j)) for j, s in enumerate(specs)]
    return lena.core.Sequence(*els)


def top_label(label):
    """Position (1-based) of the pipeline element a logging callable belongs to."""
    while isinstance(label, tuple):
        label = label[0]
    return label


ONE_TO_ONE = ("call", "var", "print", "context", "upd", "mkfn", "esplit")


def is_one_to_one(spec):
    if spec[0] in ONE_TO_ONE:
        return True
    if spec[0] == "runif":
        return all(is_one_to_one(s) for s in spec[2])
    return False


def _sign(a):
    return "none" if a is None else ("neg" if a < 0 else "nonneg")


def slice_parts(args):
    s = slice(*args)
    return s.start, s.stop, s.step


def kind_sig(spec):
    """Structural signature of an element (used in violation causes)."""
    kind = spec[0]
    if kind == "slice":
        start, stop, step = slice_parts(spec[1])
        return "Slice(start=%s,stop=%s,step=%s)" % (
            _sign(start), _sign(stop), "1" if step in (None, 1) else ">1")
    if kind == "split":
        return "Split"
    return {"call": "callable", "var": "Variable", "filter": "Filter", "count": "Count",
            "runif": "RunIf", "print": "Print", "context": "Context", "upd": "UpdateContext",
            "mkfn": "MakeFilename", "esplit": "Split([])"}[kind]


def retention(spec):
    """Input values an element is documented to keep (besides the one in flight)."""
    kind = spec[0]
    if kind == "slice":
        start, stop, _ = slice_parts(spec[1])
        return max([-a for a in (start, stop) if a is not None and a < 0] + [0])
    if kind == "split":
        return spec[1]
    if kind == "count":
        return 1
    return 0


def live_bound(pipeline):
    return sum(retention(s) + 1 for s in pipeline)


# ------------------------------------------------------------------------------------------------
# the eager function of one element

def eager(spec, values):
    el = build_element(spec, [], 0)
    return list(lena.core.Sequence(el).run(iter(values)))


def eager_descs(spec, descs):
    try:
        out = eager(spec, [undesc(t) for t in descs])
        return tuple(desc(v) for v in out)
    except RefError:
        raise
    except Exception as e:  # the element does not accept these values
        raise RefError("%s: %s" % (type(e).__name__, e))


H = 4   # continuations are up to H values long (all negative indices of the alphabet are <= 3)


def continuations(style):
    """A discriminating set of continuations for single elements of the alphabet: nothing follows;
    h passing values; h failing values; alternating values (both phases), h = 1..H."""
    def val(j, parity):
        i = 1000 + 2 * j + parity
        return (i, None) if style == "bare" else (i, json.dumps({"s": i}))
    out = [()]
    for h in range(1, H + 1):
        out.append(tuple(val(j, 0) for j in range(h)))
        out.append(tuple(val(j, 1) for j in range(h)))
        if h > 1:
            out.append(tuple(val(j, j % 2) for j in range(h)))
            out.append(tuple(val(j, (j + 1) % 2) for j in range(h)))
    return out


_CONTS = {}


def _conts(style):
    if style not in _CONTS:
        _CONTS[style] = continuations(style)
    return _CONTS[style]


class Table(object):
    """Determinacy table of one element on one input stream *y* (tuple of value descriptions;
    *closed*: the stream ends after y; otherwise y is a prefix of an unbounded stream)."""

    def __init__(self, spec, y, closed, style):
        self.spec = spec
        self.y = y
        self.closed = closed
        # Context needs (data, context) pairs; the style of the continuation is irrelevant to it
        self.style = "pair" if spec[0] == "context" else style
        self._det = {}
        if closed:
            self.out = eager_descs(spec, y)
            self.out_closed = True
        else:
            cp, fin = self.det(len(y))
            self.out = cp
            self.out_closed = fin
        self._need = {}

    def det(self, m):
        """(outputs determined by the first m inputs, output known to be complete)."""
        r = self._det.get(m)
        if r is None:
            prefix = self.y[:m]
            outs = [eager_descs(self.spec, prefix + c) for c in _conts(self.style)]
            cp = outs[0]
            fin = True
            for o in outs[1:]:
                if o != outs[0]:
                    fin = False
                k = 0
                lim = min(len(cp), len(o))
                while k < lim and cp[k] == o[k]:
                    k += 1
                cp = cp[:k]
            r = self._det[m] = (cp, fin)
        return r

    def brute_need(self, k):
        for m in range(len(self.y) + 1):
            if len(self.det(m)[0]) >= k:
                return m
        if self.closed and k <= len(self.out):
            return END
        return None

    def need(self, k):
        """(m, disagreed): m inputs determine the first k outputs (END: the end of the input must
        be seen; None: not determined by the known part of an unbounded input). The hand-written
        demand function must agree with the brute force; where it does not (my bug, or an element
        whose eager function changed) the more lenient value is used and the fact is reported."""
        if k <= 0:
            return (0, False)
        r = self._need.get(k)
        if r is None:
            b = self.brute_need(k)
            h = hand_need(self.spec, k, self.y, self.closed)
            if self.spec[0] == "count" and h is not None and b is not None and b < h:
                # the statement allows Count its documented value of look-ahead even where the
                # k-th result happens not to depend on it (the incoming context already carries
                # the same count, e.g. behind another Count)
                b = h
            dis = h is not None and b is not None and h != b
            if dis:
                b = max(b, h)
            r = self._need[k] = (b, dis)
        return r

    def end_need(self):
        """("early", m): outputs known complete after m inputs; END; or None (not determined)."""
        for m in range(len(self.y) + 1):
            if self.det(m)[1]:
                return ("early", m)
        return END if self.closed else None


def hand_need(spec, k, y, closed):
    """Hand-written demand of one element: how many of the inputs y it needs for k outputs."""
    kind = spec[0]
    n = len(y)
    last = END if closed else None
    if is_one_to_one(spec):
        return k if k <= n else None
    if kind in ("filter", "runif"):
        if kind == "runif":
            return None   # inner sequences that are not 1:1 are left to the brute force
        rem = 0 if spec[1] == "even" else 1
        seen = 0
        for idx, (i, _) in enumerate(y):
            if i % 2 == rem:
                seen += 1
                if seen == k:
                    return idx + 1
        return None
    if kind == "count":
        if k < n:
            return k + 1
        return last if k == n else None
    if kind == "slice":
        start, stop, step = slice_parts(spec[1])
        step = 1 if step is None else step
        if start is not None and start < 0:
            return last
        start = 0 if start is None else start
        idx = start + (k - 1) * step
        if stop is None or stop >= 0:
            if stop is not None and idx >= stop:
                return None
            return idx + 1 if idx < n else None
        # negative stop: the output lags the input by exactly |stop| values
        m = idx + 1 - stop
        return m if m <= n else None
    return None


class SplitTable(object):
    """Demand of Split from the documented block schedule: the flow is cut into blocks of bufsize
    values; each block is run through every branch in order; the results of block j are available
    once block j has been read, and the next block is read only after they were handed on."""

    def __init__(self, spec, y, closed, style):
        b, copy_buf, branches = spec[1], spec[2], spec[3]
        self.spec = spec
        self.y = y
        self.closed = closed
        self.b = b
        seqs = [build_branch(br, [], 0) for br in branches]
        out = []
        counts = []
        blocks = [y[i:i + b] for i in range(0, len(y), b)]
        try:
            for block in blocks:
                if len(block) < b and not closed:
                    break
                values = [undesc(t) for t in block]
                c = 0
                for bi, seq in enumerate(seqs):
                    buf = copy.deepcopy(values) if (copy_buf and bi < len(seqs) - 1) else values
                    for r in seq.run(buf):
                        out.append(desc(r))
                        c += 1
                counts.append(c)
            self.tail = 0
            if closed and not y:
                for seq in seqs:
                    for r in seq.run([]):
                        out.append(desc(r))
                        self.tail += 1
        except RefError:
            raise
        except Exception as e:
            raise RefError("%s: %s" % (type(e).__name__, e))
        self.out = tuple(out)
        self.out_closed = closed
        self.counts = counts
        self.cum = []
        t = 0
        for c in counts:
            t += c
            self.cum.append(t)
        if closed:
            if eager_descs(spec, y) != self.out:
                raise RefMismatch("Split block model differs from the eager Split")

    def need(self, k):
        return (self._need(k), False)

    def _need(self, k):
        if k <= 0:
            return 0
        for j, t in enumerate(self.cum):
            if t >= k:
                p = (j + 1) * self.b
                if p <= len(self.y):
                    return p
                return END if self.closed else None
        if self.closed and k <= len(self.out):
            return END
        return None

    def end_need(self):
        return END if self.closed else None


_TABLES = {}
_TABLES_MAX = 60000


def get_table(spec, y, closed, style):
    key = (json.dumps(spec), y, closed, style)
    t = _TABLES.get(key)
    if t is None:
        if len(_TABLES) >= _TABLES_MAX:
            _TABLES.clear()
        try:
            t = (SplitTable if spec[0] == "split" else Table)(spec, y, closed, style)
        except (RefError, RefMismatch) as e:
            t = e
        _TABLES[key] = t
    if isinstance(t, Exception):
        raise t
    return t


def analyse(pipeline, n, style, horizon):
    """Tables of every element of the pipeline on the flow (n values, or unbounded if n is None)."""
    if n is None:
        y, closed = source_descs(horizon, style), False
    else:
        y, closed = source_descs(n, style), True
    tables = []
    for spec in pipeline:
        t = get_table(spec, y, closed, style)
        tables.append(t)
        y, closed = t.out, t.out_closed
    return tables


def islice_end_bound(spec):
    """A Slice with non-negative arguments is itertools.islice: its end is found without pulling
    beyond max(start, stop). None for other elements (no bound follows from the statement)."""
    if spec[0] != "slice":
        return None
    start, stop, step = slice_parts(spec[1])
    if start is not None and stop is not None and stop <= start < 0:
        # xs[start:stop] is empty for every xs: the empty prefix determines the (empty) result, and
        # behind an unbounded flow the end must still be found ("shortest prefix that determines")
        return 0
    if start is not None and start < 0 and stop is not None and stop >= 0:
        # xs[start:stop] is empty as soon as xs is known to have stop - start values: behind a long or
        # unbounded flow the (empty) end is determined by that prefix; one value of look-ahead is granted
        return stop - start + 1
    if stop is None or stop < 0 or (start is not None and start < 0):
        return None
    return max(start or 0, stop)


def demand(pipeline, tables, k):
    """(stage, disagreements) where stage[j] = number of outputs of element j (j = 0: source values)
    that may be consumed to hand k results (or, k == END, the end of the results) to the consumer.
    None: not determined by the known part of an unbounded flow."""
    n_el = len(pipeline)
    stage = [None] * (n_el + 1)
    N = k
    ndis = 0
    stage[n_el] = N
    for j in range(n_el - 1, -1, -1):
        t, spec = tables[j], pipeline[j]
        if N == ANY:
            pass
        elif N == END:
            e = t.end_need()
            if e is None:
                return None
            if e == END:
                N = END
            else:
                m = e[1]
                bound = islice_end_bound(spec)
                if bound is None:
                    N = ANY
                else:
                    bound = max(bound, m)
                    if bound <= len(t.y):
                        N = bound
                    else:
                        N = END if t.closed else None
        else:
            N, dis = t.need(N)
            if dis:
                ndis += 1
        if N is None:
            return None
        stage[j] = N
    return stage, ndis


# ------------------------------------------------------------------------------------------------
# the instrumented source

class Source(object):
    """Iterator over fresh values V(0), V(1), ...: logs pulls and the observation of its end,
    counts how many of its values are still alive, raises Runaway beyond *limit* pulls."""

    def __init__(self, n, style, log, limit):
        self.n = n
        self.style = style
        self.log = log
        self.limit = limit
        self.i = 0
        self.alive = 0
        self.ends = 0
        self._refs = []

    def __iter__(self):
        return self

    def _dead(self, ref):
        self.alive -= 1

    def __next__(self):
        i = self.i
        if self.n is not None and i >= self.n:
            self.ends += 1
            self.log.append("E")
            raise StopIteration
        if i >= self.limit:
            raise Runaway(i)
        self.i = i + 1
        v = V(i)
        self.alive += 1
        self._refs.append(weakref.ref(v, self._dead))
        self.log.append(("p", i))
        return v if self.style == "bare" else (v, {"s": i})

    def events(self):
        return self.i + (1 if self.ends else 0)
