"""Alphabet of C10 (unselected values pass through): the ten selective elements, per element its
configurations, the values it selects (pool A), the values it does not select (pool B, 16 per
element), the initial content of the working directory, and the fake converter processes.

Everything here is written from the elements' docstrings ("Not selected values pass unchanged",
"Other values pass unchanged", ...): which value belongs to A and which to B is decided by the
documented selection rule, never by running lena.

Every factory builds fresh objects (elements carry state, contexts are mutated in place).
"""
import hashlib
import os

import jinja2

import lena.core
import lena.flow
import lena.output
import lena.output.latex_to_pdf
import lena.output.pdf_to_png
import lena.structures
import lena.variables
from lena.structures import histogram, graph

KINDS = ["ToCSV", "Write", "RenderLaTeX", "LaTeXToPDF", "PDFToPNG",
         "HistToGraph", "MapBins", "IterateBins", "RunIf", "MapGroup"]

# elements that are allowed to touch the file system for the values they select
FS_KINDS = ("Write", "RenderLaTeX", "LaTeXToPDF", "PDFToPNG")


# ------------------------------------------------------------------------------------------------
# foreign helper classes
# ------------------------------------------------------------------------------------------------

class Foreign(object):
    """An object lena knows nothing about."""

    def __init__(self, tag="f"):
        self.tag = tag


class WriteAttr(object):
    """Has an attribute *write* that is not callable: not writable by Write's documented rule."""

    def __init__(self):
        self.write = 5


class Writable(object):
    """Has a method write(filepath): selected by Write."""

    def __init__(self, text):
        self.text = text

    def write(self, filepath):
        with open(filepath, "w") as f:
            f.write("W:" + self.text)


class Vec(object):
    """A compound bin content."""

    def __init__(self, x, y):
        self.x = x
        self.y = y


def _fresh_int(n):
    # a new int object each time (large ints are not cached), so identity is meaningful
    return int(str(10 ** 6 + n))


def _fresh_str(s):
    return "".join([s[:1], s[1:]]) if len(s) > 1 else s


# ------------------------------------------------------------------------------------------------
# foreign values (pool B). name -> factory
# ------------------------------------------------------------------------------------------------

def _h1(bins=(1, 2)):
    return histogram([0, 1, 2], list(bins))


def _h3():
    return histogram([[0, 1], [0, 1], [0, 1]], [[[1]]])


FOREIGN = {
    "int": lambda: _fresh_int(7),
    "float": lambda: float("2.5"),
    "none": lambda: None,
    "str": lambda: _fresh_str("text"),
    "tuple3": lambda: (_fresh_int(1), 2, 3),
    "tuple2": lambda: (_fresh_int(1), 2),
    "nested_pair": lambda: ((_fresh_int(1), {"in": 1}), [2]),
    "pair_empty": lambda: (_fresh_int(3), {}),
    "pair_unrelated": lambda: (_fresh_int(4), {"unrelated": {"a": 1}, "variable": {"name": "x"}}),
    "pair_output_scalar": lambda: (_fresh_int(5), {"output": 5}),
    "pair_disabled": lambda: (_fresh_int(6), {"output": {"write": False, "to_csv": False}}),
    "pair_filename": lambda: (_fresh_int(8), {"output": {"filename": "num", "dirname": "d"}}),
    "foreign": lambda: Foreign(),
    "pair_foreign_xyz": lambda: (Foreign("g"), {"output": {"filetype": "xyz", "filename": "f"}}),
    "list": lambda: [1, 2],
    # bytes are not a string (Write selects text): with a context that names a file
    "pair_bytes": lambda: (bytes(bytearray(b"raw")), {"output": {"filename": "raw", "filetype": "bin"}}),
    "dict": lambda: {"a": 1},
    "bool": lambda: True,
    # strings with context
    "str_disabled": lambda: (_fresh_str("not written"), {"output": {"write": False}}),
    "str_csv": lambda: (_fresh_str("0,1\n1,2"), {"output": {"filetype": "csv", "filename": "s",
                                                            "filepath": "out/s.csv"}}),
    "str_tex": lambda: (_fresh_str("out/x.tex"), {"output": {"filetype": "tex", "filename": "x",
                                                             "changed": True}}),
    "str_pdf": lambda: (_fresh_str("out/x.pdf"), {"output": {"filetype": "pdf", "filename": "x",
                                                             "changed": True}}),
    "str_png": lambda: (_fresh_str("out/x.png"), {"output": {"filetype": "png", "changed": True}}),
    "str_nofiletype": lambda: (_fresh_str("plain"), {"output": {"filename": "x"}}),
    "str_csv_wrong_level": lambda: (_fresh_str("plain"), {"filetype": "csv", "render": False}),
    # a value as yielded by an earlier Write("out"): data equals the path Write would compute
    "written_path": lambda: (_fresh_str("out/z.csv"),
                             {"output": {"filename": "z", "fileext": "csv", "filetype": "csv",
                                         "filepath": "out/z.csv", "changed": False}}),
    "writable_disabled": lambda: (Writable("nope"), {"output": {"write": False, "filename": "w"}}),
    "write_attr": lambda: WriteAttr(),
    # structures
    "hist": lambda: _h1(),
    "pair_hist": lambda: (_h1(), {"histogram": {"dim": 1}}),
    "hist_float_bins": lambda: (histogram([0, 1, 2], [1.5, 2.5]), {"a": 1}),
    "hist_no_graph": lambda: (_h1(), {"histogram": {"to_graph": False}}),
    # bins hold compound data (MapBins documents select_bins=[vector3, list] for such histograms):
    # a one-dimensional histogram of lists is not a histogram of numbers
    "hist_list_bins": lambda: (histogram([0, 1, 2], [[1, 2], [3, 4]]), {"a": 3}),
    # not selected (to_graph False) although its bins are (data, context) pairs with a variable
    "hist_pairbins_no_graph": lambda: (histogram([0, 1, 2], [(1, {"variable": {"name": "n", "k": [1]}}),
                                                             (2, {"variable": {"name": "n", "k": [2]}})]),
                                       {"histogram": {"to_graph": False}}),
    # bins of the same data type as selected ones, but the bin context does not carry the selected key
    "hist_bins_not_sel": lambda: (histogram([0, 1, 2], [(1, {"sel": {"no": 1}}), (2, {"sel": {"no": 1}})]),
                                  {"a": 2}),
    # unselected values that carry settings meant for ToCSV (they must not reach a later histogram)
    "hist_no_csv": lambda: (_h1(), {"output": {"to_csv": False, "duplicate_last_bin": False}}),
    "hist2_no_csv": lambda: (histogram([[0, 1, 2], [0, 1]], [[1], [2]]),
                             {"output": {"to_csv": 0, "write": False}}),
    "graph_no_csv": lambda: (graph([[0, 1], [2, 3]]), {"output": {"to_csv": False, "write": False,
                                                                   "duplicate_last_bin": True}}),
    "hist3d": lambda: (_h3(), {"b": 2}),
    # bins that are no numbers at all
    "hist_str_bins": lambda: (histogram([0, 1, 2], [_fresh_str("ab"), _fresh_str("cd")]), {"a": 4}),
    "hist_none_bins": lambda: histogram([0, 1, 2], [None, None]),
    # bins of different types: the FIRST cell is an int, the last one is not (which cell is the
    # "arbitrary bin" that select_bins is asked about is the user's option get_example_bin)
    "hist_mixed_last_float": lambda: (histogram([0, 1, 2], [1, 2.5]), {"a": 5}),
    "graph": lambda: graph([[0, 1], [2, 3]]),
    "pair_graph": lambda: (graph([[0, 1], [2, 3]]), {"g": 1}),
    # groups and selectors
    "num_with_group": lambda: (_fresh_int(9), {"group": [{"a": 1}]}),
    "list_no_group": lambda: ([1, 2], {"no_group": [{}, {}]}),
    "pair_sel_false": lambda: (_fresh_int(10), {"sel": False}),
    "pair_sel_scalar": lambda: (_fresh_int(11), {"sel": 5}),
    "pair_sel_other": lambda: (_fresh_int(12), {"sel": {"other": 1}}),
}

_GENERIC = ["int", "float", "none", "tuple3", "tuple2", "pair_empty", "pair_unrelated",
            "pair_output_scalar", "pair_disabled", "foreign", "pair_foreign_xyz", "list", "dict"]


def b_pool(kind, cfg):
    """The 16 foreign values of an element configuration (names in FOREIGN)."""
    if kind == "ToCSV":
        extra = ["str", "str_csv", "hist_no_csv", "hist2_no_csv", "graph_no_csv", "hist3d"]
        drop = ["tuple2", "float", "list"]
    elif kind == "Write":
        # bare strings are selected by Write
        extra = ["str_disabled", "writable_disabled", "write_attr", "written_path", "pair_hist",
                 "pair_filename", "pair_bytes"]
        drop = ["float", "tuple2", "dict", "tuple3"]
    elif kind == "RenderLaTeX":
        extra = ["str", "str_tex", "str_pdf", "str_nofiletype", "str_csv_wrong_level", "pair_hist"]
        drop = ["float", "tuple2", "list"]
    elif kind == "LaTeXToPDF":
        extra = ["str", "str_csv", "str_pdf", "str_png", "str_nofiletype", "pair_filename"]
        drop = ["float", "tuple2", "list"]
    elif kind == "PDFToPNG":
        extra = ["str", "str_csv", "str_tex", "str_png", "str_nofiletype", "pair_filename"]
        drop = ["float", "tuple2", "list"]
    elif kind == "HistToGraph":
        extra = ["str", "hist_no_graph", "graph", "pair_graph", "hist_pairbins_no_graph", "nested_pair"]
        drop = ["float", "tuple2", "list"]
    elif kind == "MapBins":
        # cfg "all" selects every histogram; the others select on the type of the bin content
        if cfg == "all":
            extra = ["str", "graph", "pair_graph", "str_csv", "nested_pair", "bool"]
        elif cfg == "vec":
            extra = ["str", "graph", "pair_graph", "hist", "pair_hist", "hist_float_bins"]
        elif cfg == "ctxsel":   # bins selected by a key in the bin context
            extra = ["str", "graph", "hist_bins_not_sel", "hist", "pair_hist", "hist_float_bins"]
        elif cfg == "int_last":   # the user's get_example_bin hands the LAST cell to select_bins=int
            extra = ["str", "graph", "hist_mixed_last_float", "hist_float_bins", "hist_list_bins",
                     "nested_pair"]
        else:  # int bins selected
            extra = ["str", "graph", "pair_graph", "hist_float_bins", "hist_list_bins", "nested_pair"]
        drop = ["float", "tuple2", "list"]
    elif kind == "IterateBins":
        if cfg == "int":
            extra = ["str", "graph", "pair_graph", "hist_float_bins", "hist_list_bins", "nested_pair"]
        else:
            extra = ["str", "graph", "pair_graph", "hist", "pair_hist", "hist_float_bins"]
        drop = ["float", "tuple2", "list"]
    elif kind == "RunIf":
        if cfg.startswith("type"):  # selects floats
            extra = ["str", "pair_hist", "hist", "pair_sel_false", "bool", "str_csv"]
            drop = ["float", "tuple2", "list"]
        elif cfg == "str3":
            extra = ["str", "pair_hist", "pair_sel_false", "pair_sel_scalar", "pair_sel_other",
                     "str_csv"]
            drop = ["float", "tuple2", "list"]
        else:
            extra = ["str", "pair_hist", "pair_sel_false", "pair_sel_scalar", "pair_sel_other",
                     "str_csv"]
            drop = ["float", "tuple2", "list"]
    elif kind == "MapGroup":
        extra = ["str", "num_with_group", "list_no_group", "pair_hist", "str_csv", "nested_pair"]
        drop = ["float", "tuple2", "dict"]
    else:
        raise ValueError(kind)
    pool = [n for n in _GENERIC if n not in drop] + extra
    assert len(pool) == 16 and len(set(pool)) == 16, (kind, cfg, len(pool))
    return pool


# the most different foreign values first (used for the longest B lists)
SUBPOOL = 3


def b_subpool(kind, cfg, size=SUBPOOL):
    pool = b_pool(kind, cfg)
    want = {
        "ToCSV": ["int", "hist_no_csv", "pair_output_scalar", "str_csv", "hist3d"],
        "Write": ["int", "str_disabled", "written_path", "pair_output_scalar", "writable_disabled"],
        "RenderLaTeX": ["str", "str_tex", "pair_output_scalar", "int", "pair_disabled"],
        "LaTeXToPDF": ["int", "str_pdf", "pair_output_scalar", "str_csv", "pair_disabled"],
        "PDFToPNG": ["int", "str_tex", "pair_output_scalar", "str_png", "pair_disabled"],
        "HistToGraph": ["hist_pairbins_no_graph", "int", "hist_no_graph", "pair_graph", "pair_output_scalar"],
        "MapBins": ["hist_mixed_last_float", "hist_bins_not_sel", "int", "pair_graph", "hist_float_bins", "pair_output_scalar"],
        "IterateBins": ["int", "hist_float_bins", "pair_graph", "pair_output_scalar", "pair_empty"],
        "RunIf": ["int", "pair_sel_false", "pair_empty", "str", "pair_output_scalar"],
        "MapGroup": ["int", "num_with_group", "list_no_group", "pair_output_scalar", "pair_empty"],
    }[kind]
    sub = [n for n in want if n in pool]
    for n in pool:
        if len(sub) >= size:
            break
        if n not in sub:
            sub.append(n)
    return sub[:size]


def b_pool_for(kind, cfg, blen, tier):
    """The foreign values from which B lists of length *blen* are formed in a tier."""
    if tier == "thorough":
        if blen == 3 and kind == "LaTeXToPDF":
            return b_subpool(kind, cfg, 8)   # every flow is run under all completion schedules
        return b_pool(kind, cfg)
    if blen == 3:
        return b_subpool(kind, cfg, SUBPOOL)
    return b_pool(kind, cfg)


def make_b(name):
    if name.startswith(SHAPE_PREFIX):
        return make_shape(name)
    return FOREIGN[name]()


# ------------------------------------------------------------------------------------------------
# shape axis: the content of a value the element SELECTS, held by something that is not a
# (data, context) tuple.  lena documents a value with context as a tuple (data, context)
# (lena.flow.get_context: "a possible (data, context) pair"); a list [data, context], a one-shot
# iterator over data and context, and iterators of other lengths are plain data of a type no
# element selects.  They must pass as the same object, untouched (for an iterator: not advanced).
# ------------------------------------------------------------------------------------------------

SHAPE_PREFIX = "shape:"
SHAPE_FORMS = ("list", "iter")
SHAPE_ITER_LENGTHS = (1, 2, 3)


class OneShot(object):
    """A one-shot iterator (like an open file or a reader): its position is visible state."""

    def __init__(self, items):
        self.items = list(items)
        self.pos = 0

    def __iter__(self):
        return self

    def __next__(self):
        if self.pos >= len(self.items):
            raise StopIteration
        self.pos += 1
        return self.items[self.pos - 1]


def shape_pool(kind, cfg, tier="thorough"):
    """Names 'shape:<element>:<form>:<selected value>' and 'shape:<element>:iter<n>:-'."""
    if is_decline(cfg):
        return []
    out = ["%s%s:%s:%s" % (SHAPE_PREFIX, kind, form, a)
           for form in SHAPE_FORMS for a in a_pool(kind, cfg, tier)]
    out.extend("%s%s:iter%d:-" % (SHAPE_PREFIX, kind, n) for n in SHAPE_ITER_LENGTHS)
    return out


def make_shape(name):
    _, kind, form, a = name.split(":")
    if a == "-":
        n = int(form[4:])
        return OneShot([_fresh_int(30 + i) for i in range(n)])
    val = make_a(kind, a)
    if not (type(val) is tuple and len(val) == 2 and type(val[1]) is dict):
        val = (val, {})
    return list(val) if form == "list" else OneShot(val)


# ------------------------------------------------------------------------------------------------
# selectors that decline a value by raising
#
# Selector documents: "raise_on_error is a boolean that sets whether in case of an exception the
# selector raises that exception or returns False" and, for raise_on_error=False, "If an exception
# occurs ... the result is False" - so a value on which the user's function raises is a value the
# element does not select, whatever the type of the exception.  The axis: the elements that select
# with a Selector (RunIf, MapBins, IterateBins) x the form in which the tolerant selector is given x
# the type of the exception (every class of builtins and of lena.core derived from Exception, and a
# class of the user's own).
# ------------------------------------------------------------------------------------------------

class OwnError(Exception):
    """An exception class of the user's own, derived from Exception directly."""


def _exception_classes():
    import builtins
    out = {}
    for mod in (builtins, lena.core):
        for name in sorted(vars(mod)):
            obj = getattr(mod, name)
            # (aliases such as IOError are listed once, under their own name)
            if isinstance(obj, type) and issubclass(obj, Exception) and obj.__name__ == name:
                out[name] = obj
    out["OwnError"] = OwnError
    return out


DECLINE_EXCS = _exception_classes()
DECLINE_EXC_NAMES = sorted(DECLINE_EXCS)

# the classes that cannot be made from one message
_EXC_ARGS = {
    "UnicodeDecodeError": ("utf-8", b"\xff", 0, 1, "declined"),
    "UnicodeEncodeError": ("ascii", u"\xe9", 0, 1, "declined"),
    "UnicodeTranslateError": (u"\xe9", 0, 1, "declined"),
    "ExceptionGroup": ("declined", [ValueError("inner")]),
}


def make_exc(name):
    return DECLINE_EXCS[name](*_EXC_ARGS.get(name, ("declined",)))


DECLINE_KINDS = ("RunIf", "MapBins", "IterateBins")

# how the tolerant selector is handed to the element
_DECLINE_FORMS = {
    "RunIf": ["plain", "or", "and", "inner", "ctx"],
    "MapBins": ["plain", "or", "and", "inner"],
    "IterateBins": ["plain", "or", "and", "inner"],
}


def is_decline(cfg):
    return cfg.startswith("decline:")


def decline_parts(cfg):
    _, form, excname = cfg.split(":")
    return form, excname


def decline_forms(kind):
    return list(_DECLINE_FORMS.get(kind, ()))


# Exception itself and the classes derived from it directly (the roots of the families)
DECLINE_EXC_ROOTS = [n for n in DECLINE_EXC_NAMES
                     if DECLINE_EXCS[n] is Exception or Exception in DECLINE_EXCS[n].__bases__]


def decline_excs(form, tier):
    """Exception classes with which a form of the tolerant selector is run in a tier: all of them
    for the forms in which the user's test is called by the selector itself (plain: Selector, ctx:
    SelectContext) and everywhere in the thorough tier; the roots of the families for the forms
    that only hand raise_on_error on to such a selector (quick tier)."""
    if tier == "thorough" or form in ("plain", "ctx"):
        return list(DECLINE_EXC_NAMES)
    return list(DECLINE_EXC_ROOTS)


def decline_configs(kind, tier="thorough"):
    """Names 'decline:<form>:<exception class>' of an element's configurations whose selector
    declines by raising."""
    return ["decline:%s:%s" % (f, e) for f in decline_forms(kind) for e in decline_excs(f, tier)]


def _always(val):
    return True


def _int_bin(content):
    return isinstance(lena.flow.get_data(content), int)


# how often a test of a decline configuration has failed in this process (non-vacuity counter)
DECLINED = [0]


def _declining(positive, excname):
    """A user's test that answers True for the values it is meant for and fails on all others."""
    def test(val):
        if positive(val):
            return True
        DECLINED[0] += 1
        raise make_exc(excname)
    return test


def _tolerant(kind, form, excname):
    """The selector of a decline configuration."""
    Selector = lena.flow.Selector
    if form == "ctx":
        # the subcontext 'sel' is tested; a value without it is not selected (documented)
        return lena.flow.SelectContext("sel", _declining(lambda sub: sub is True, excname),
                                       raise_on_error=False)
    test = _declining(_flag if kind == "RunIf" else _int_bin, excname)
    if form == "plain":
        return Selector(test, raise_on_error=False)
    if form == "or":        # "its items are converted to selectors", raise_on_error used recursively
        return Selector([test], raise_on_error=False)
    if form == "and":
        return Selector((_always, test), raise_on_error=False)
    if form == "inner":     # a tolerant selector as an item of an ordinary one
        return Selector([Selector(test, raise_on_error=False)])
    raise ValueError(form)


def _build_decline(kind, cfg):
    form, excname = decline_parts(cfg)
    sel = _tolerant(kind, form, excname)
    if kind == "RunIf":
        return lena.flow.RunIf(sel, _add1)
    if kind == "MapBins":
        return lena.structures.MapBins(lena.variables.Variable("add1", lambda x: x + 1),
                                       select_bins=sel)
    if kind == "IterateBins":
        return lena.structures.IterateBins(select_bins=sel)
    raise ValueError((kind, cfg))


def decline_b_pool(kind):
    """Foreign values of the decline configurations; those the selector is really asked about
    (values with a context for RunIf, histograms for the bin elements) come first."""
    if kind == "RunIf":
        return ["pair_sel_false", "int", "pair_empty", "pair_sel_scalar", "pair_sel_other", "str",
                "none", "tuple3", "pair_unrelated", "pair_output_scalar", "pair_disabled", "foreign",
                "pair_foreign_xyz", "dict", "pair_hist", "str_csv"]
    return ["hist_float_bins", "int", "hist_list_bins", "hist_str_bins", "hist_none_bins",
            "pair_graph", "pair_empty", "str"]


# ------------------------------------------------------------------------------------------------
# configurations, elements, selected values (pool A), initial directory
# ------------------------------------------------------------------------------------------------

TEMPLATES = {
    "t.tex": "\\VAR{output.filepath} a=\\VAR{a}",
    "u.tex": "U \\VAR{output.filename}",
    "d.tex": "D \\VAR{x} \\VAR{y}",
}


def configs(kind):
    return {
        "ToCSV": ["default", "opts"],
        "Write": ["plain", "plain_pre", "unchanged_pre", "overwrite_pre", "verbose_dflt"],
        "RenderLaTeX": ["dir", "env", "env_select", "env_data"],
        "LaTeXToPDF": ["default", "overwrite", "command"],
        "PDFToPNG": ["default", "overwrite", "jpeg"],
        "HistToGraph": ["default", "middle_scale", "value"],
        "MapBins": ["all", "int", "vec", "ctxsel", "int_last"],
        "IterateBins": ["default", "int"],
        "RunIf": ["flag_call", "flag_count", "flag_dup", "flag_drop", "type_call", "str2", "str3"],
        "MapGroup": ["call", "ctx", "two"],
    }[kind]


class _Dup(object):
    """Run element: yields every value twice (second time as a marked copy)."""

    def run(self, flow):
        for val in flow:
            yield val
            yield (lena.flow.get_data(val), {"dup": True})


class _Drop(object):
    """Run element: yields nothing for odd data."""

    def run(self, flow):
        for val in flow:
            if lena.flow.get_data(val) % 2 == 0:
                yield val


def last_cell(struct):
    """A user's get_example_bin: the cell with the last index on each axis (*struct* is a histogram
    or an array of bins, as documented for lena.structures.get_example_bin)."""
    if isinstance(struct, histogram):
        bins = struct.bins
        for _ in range(struct.dim):     # a cell may itself be a list
            bins = bins[-1]
        return bins
    bins = struct
    while isinstance(bins, list):
        bins = bins[-1]
    return bins


def _add1(val):
    data, context = lena.flow.get_data_context(val)
    return (data + 1, context)


def _flag(val):
    return lena.flow.get_context(val).get("sel") is True


def _render_flag(val):
    return lena.flow.get_context(val).get("render") is True


def _command(texfile_name, outfilename, output_directory, context):
    return ["mytex", "-o", outfilename, texfile_name]


_ENV = None


def _shared_env():
    # the jinja environment is not lena code; it is shared to keep compiled templates cached
    global _ENV
    if _ENV is None:
        _ENV = jinja2.Environment(loader=jinja2.DictLoader(dict(TEMPLATES)),
                                  **lena.output.jinja_syntax_latex)
    return _ENV


def build(kind, cfg):
    """A fresh element."""
    if is_decline(cfg):
        return _build_decline(kind, cfg)
    if kind == "ToCSV":
        if cfg == "default":
            return lena.output.ToCSV()
        return lena.output.ToCSV(separator=" ", header="x y", row_end=";", last_row_end=".",
                                 duplicate_last_bin=False)
    if kind == "Write":
        if cfg in ("plain", "plain_pre"):
            return lena.output.Write("out", verbose=False)
        if cfg == "unchanged_pre":
            return lena.output.Write("out", verbose=False, existing_unchanged=True)
        if cfg == "overwrite_pre":
            return lena.output.Write("out", verbose=False, overwrite=True)
        if cfg == "verbose_dflt":
            return lena.output.Write("out", output_filename="dflt", verbose=True)
    if kind == "RenderLaTeX":
        if cfg == "dir":
            return lena.output.RenderLaTeX("t.tex", template_dir="templates")
        if cfg == "env":
            return lena.output.RenderLaTeX(select_template="t.tex", environment=_shared_env(),
                                           verbose=2)
        if cfg == "env_select":
            return lena.output.RenderLaTeX(select_template=lambda val: "u.tex",
                                           select_data=_render_flag, environment=_shared_env())
        if cfg == "env_data":
            return lena.output.RenderLaTeX(select_template="d.tex", environment=_shared_env(),
                                           from_data=True)
    if kind == "LaTeXToPDF":
        if cfg == "default":
            return lena.output.LaTeXToPDF(verbose=0)
        if cfg == "overwrite":
            return lena.output.LaTeXToPDF(overwrite=True, verbose=1)
        if cfg == "command":
            return lena.output.LaTeXToPDF(verbose=2, create_command=_command)
    if kind == "PDFToPNG":
        if cfg == "default":
            return lena.output.PDFToPNG(verbose=False)
        if cfg == "overwrite":
            return lena.output.PDFToPNG(overwrite=True, verbose=True)
        if cfg == "jpeg":
            return lena.output.PDFToPNG(format="jpeg", verbose=False)
    if kind == "HistToGraph":
        if cfg == "default":
            return lena.structures.HistToGraph()
        if cfg == "middle_scale":
            return lena.structures.HistToGraph(get_coordinate="middle", scale=True)
        if cfg == "value":
            return lena.structures.HistToGraph(
                make_value=lena.variables.Variable("twice", lambda b: 2 * b),
                get_coordinate="right", field_names=("p", "q"))
    if kind == "MapBins":
        if cfg == "all":
            return lena.structures.MapBins(lambda x: x)
        if cfg == "int":
            return lena.structures.MapBins(lena.variables.Variable("add1", lambda x: x + 1),
                                           select_bins=int)
        if cfg == "int_last":
            # the documented option get_example_bin: the "arbitrary bin" is the user's choice
            return lena.structures.MapBins(lena.variables.Variable("add1", lambda x: x + 1),
                                           select_bins=int, get_example_bin=last_cell)
        if cfg == "vec":
            return lena.structures.MapBins(
                lena.variables.Variable("x", lambda v: v.x), select_bins=[Vec],
                drop_bins_context=False)
        if cfg == "ctxsel":
            # not a function of the type of the bin content: a key of the bin context decides
            return lena.structures.MapBins(lena.variables.Variable("add1", lambda x: x + 1),
                                           select_bins="sel.yes")
    if kind == "IterateBins":
        if cfg == "default":
            return lena.structures.IterateBins()
        if cfg == "int":
            return lena.structures.IterateBins(select_bins=int)
    if kind == "RunIf":
        if cfg == "flag_call":
            return lena.flow.RunIf(_flag, _add1)
        if cfg == "flag_count":
            # a stateful inner element: the count goes on over the selected values only
            return lena.flow.RunIf(lena.flow.Selector(_flag), lena.flow.Count("n"), _add1)
        if cfg == "flag_dup":
            return lena.flow.RunIf(_flag, lena.core.Sequence(_Dup()))
        if cfg == "flag_drop":
            return lena.flow.RunIf(_flag, _Drop(), _add1)
        if cfg == "type_call":
            return lena.flow.RunIf(float, _add1)
        if cfg == "str2":
            return lena.flow.RunIf("sel.me", _add1)
        if cfg == "str3":
            return lena.flow.RunIf("sel.x.y", _add1)
    if kind == "MapGroup":
        if cfg == "call":
            return lena.flow.MapGroup(_add1, map_scalars=False)
        if cfg == "ctx":
            return lena.flow.MapGroup(lambda val: (val[0] * 2, {"b": 2, "output": {"changed": True}}),
                                      map_scalars=False)
        if cfg == "two":
            return lena.flow.MapGroup(_Dup(), _add1, map_scalars=False)
    raise ValueError((kind, cfg))


def _nested_hist(ctx_in_bins):
    if ctx_in_bins:
        bins = [(_h1((1, 2)), {"variable": {"name": "y"}}), (_h1((3, 4)), {"variable": {"name": "y"}})]
    else:
        bins = [_h1((1, 2)), _h1((3, 4))]
    return histogram([0, 10, 20], bins)


# name -> factory, per kind
_A = {
    "ToCSV": {
        "h1": lambda: _h1(),
        "h1_ctx": lambda: (_h1((3, 4)), {"output": {"duplicate_last_bin": False, "filename": "f"},
                                         "a": 1}),
        "h2": lambda: (histogram([[0, 1, 2], [0, 1]], [[1], [2]]), {"output": {"to_csv": True}}),
        "graph": lambda: (graph([[0, 1], [2, 3]]), {"g": {"h": 1}}),
    },
    "Write": {
        "bare": lambda: _fresh_str("bare text"),
        "csv_a": lambda: (_fresh_str("csvtext"), {"output": {"filetype": "csv", "filename": "a"}}),
        "sub_b": lambda: (_fresh_str("t"), {"output": {"filename": "b", "dirname": "sub",
                                                       "fileext": "dat", "changed": True},
                                            "k": 1}),
        "obj_w": lambda: (Writable("obj"), {"output": {"filename": "w"}}),
        "empty_name": lambda: (_fresh_str("boom"), {"output": {"filename": ""}}),
    },
    "RenderLaTeX": {
        # selected by default (filetype csv) ...
        "csv1": lambda: (_fresh_str("out/p.csv"), {"output": {"filetype": "csv",
                                                             "filepath": "out/p.csv",
                                                             "filename": "p"}, "a": 1,
                                                   "render": True, "x": 1, "y": 2}),
        "csv_tpl": lambda: (_fresh_str("out/q.csv"), {"output": {"filetype": "csv",
                                                                "filepath": "out/q.csv",
                                                                "filename": "q",
                                                                "template": "u.tex"},
                                                      "render": True}),
        # ... the data part is a dictionary for from_data
        "csv_data": lambda: ({"x": 5, "y": 6}, {"output": {"filetype": "csv", "filename": "r"},
                                                "render": True}),
    },
    "LaTeXToPDF": {
        "changed": lambda: (_fresh_str("out/a.tex"), {"output": {"filetype": "tex",
                                                                "changed": True}, "k": 1}),
        "unchanged_pdf": lambda: (_fresh_str("out/b.tex"), {"output": {"filetype": "tex",
                                                                      "changed": False}}),
        "nochanged_newer": lambda: (_fresh_str("out/c.tex"), {"output": {"filetype": "tex"}}),
        "nochanged_older": lambda: (_fresh_str("out/d.tex"), {"output": {"filetype": "tex"}}),
        "unchanged_nopdf": lambda: (_fresh_str("out/e.tex"), {"output": {"filetype": "tex",
                                                                        "changed": False}}),
    },
    "PDFToPNG": {
        "new": lambda: (_fresh_str("out/a.pdf"), {"output": {"filetype": "pdf"}, "k": 1}),
        "exists_unchanged": lambda: (_fresh_str("out/b.pdf"), {"output": {"filetype": "pdf",
                                                                         "changed": False}}),
        "exists_changed": lambda: (_fresh_str("out/c.pdf"), {"output": {"filetype": "pdf",
                                                                       "changed": True}}),
        "exists_nochanged": lambda: (_fresh_str("out/d.pdf"), {"output": {"filetype": "pdf"}}),
    },
    "HistToGraph": {
        "h1": lambda: _h1(),
        "h1_ctx": lambda: (_h1((3, 4)), {"histogram": {"to_graph": True}, "a": 1}),
        "h_binctx": lambda: (histogram([0, 1, 2], [(1, {"variable": {"name": "n"}}),
                                                   (2, {"variable": {"name": "n"}})]), {}),
        "h1_other": lambda: (_h1((5, 6)), {"output": {"to_csv": False}}),
    },
    "MapBins": {
        "int_bins": lambda: _h1(),
        "int_bins_ctx": lambda: (_h1((3, 4)), {"variable": {"name": "x"}}),
        "intctx_bins": lambda: (histogram([0, 1, 2], [(1, {"c": 1}), (2, {"c": 1})]), {"a": 1}),
        # the last cell is an int, the first one is not
        "mixed_last_int": lambda: (histogram([0, 1, 2], [0.5, 3]), {"n": 1}),
        "vec_bins": lambda: (histogram([0, 1, 2], [Vec(1, 2), Vec(3, 4)]),
                             {"variable": {"name": "v"}}),
        "sel_bins": lambda: (histogram([0, 1, 2], [(1, {"sel": {"yes": 1}}), (2, {"sel": {"yes": 1}})]),
                             {"a": 1}),
        "sel_bins2": lambda: histogram([0, 1, 2], [(5, {"sel": {"yes": 2}, "k": 1}),
                                                   (6, {"sel": {"yes": 2}, "k": 1})]),
    },
    "IterateBins": {
        "hh": lambda: _nested_hist(False),
        "hh_ctx": lambda: (_nested_hist(True), {"variable": {"name": "x"}, "histogram": {"dim": 1}}),
        "int_bins": lambda: (_h1((5, 6)), {"variable": {"name": "z"}}),
    },
    "RunIf": {
        "sel2": lambda: (2, {"sel": True}),
        "sel3": lambda: (3, {"sel": True, "k": {"m": 1}}),
        "f1": lambda: float("1.5"),
        "f2": lambda: (float("2.5"), {"k": 1}),
        "me": lambda: (4, {"sel": {"me": 1}}),
        "me2": lambda: (5, {"sel": {"me": {"deep": 1}}, "k": 1}),
        "xy": lambda: (6, {"sel": {"x": {"y": 1}}}),
        "xy2": lambda: (7, {"sel": {"x": "y"}, "k": 1}),
    },
    "MapGroup": {
        "g2": lambda: ([1, 3], {"group": [{"a": 1}, {"a": 1}]}),
        "g1": lambda: ((5,), {"group": [{"c": 1}], "k": 1}),
        "g2_changed": lambda: ([2, 4], {"group": [{"output": {"changed": False}}, {}],
                                        "output": {"filename": "g"}}),
        "bad_len": lambda: ([1, 2], {"group": [{}]}),
    },
}


def a_pool(kind, cfg, tier="thorough"):
    """Names of the values an element configuration selects."""
    if is_decline(cfg):
        return {"RunIf": ["sel2", "sel3"], "MapBins": ["int_bins", "intctx_bins"],
                "IterateBins": ["int_bins"]}[kind]
    if kind == "MapBins":
        return {"all": ["int_bins", "int_bins_ctx", "intctx_bins"],
                "int": ["int_bins", "int_bins_ctx", "intctx_bins"],
                "int_last": ["int_bins", "int_bins_ctx", "mixed_last_int"],
                "vec": ["vec_bins"], "ctxsel": ["sel_bins", "sel_bins2"]}[cfg]
    if kind == "IterateBins":
        return {"default": ["hh", "hh_ctx"], "int": ["int_bins"]}[cfg]
    if kind == "RunIf":
        if cfg.startswith("flag"):
            return ["sel2", "sel3"]
        if cfg.startswith("type"):
            return ["f1", "f2"]
        if cfg == "str2":
            return ["me", "me2"]
        return ["xy", "xy2"]
    if kind == "RenderLaTeX":
        if cfg == "env_data":
            return ["csv_data"]
        return ["csv1", "csv_tpl"]
    if kind == "Write":
        if cfg == "verbose_dflt":
            return ["bare", "csv_a", "empty_name"]
        return ["bare", "csv_a", "sub_b", "obj_w"]
    if kind == "LaTeXToPDF":
        if tier != "thorough":
            return ["changed", "unchanged_pdf", "nochanged_newer"]
        return ["changed", "unchanged_pdf", "nochanged_newer", "nochanged_older",
                "unchanged_nopdf"]
    return list(_A[kind])


def a_repeatable(kind):
    """May the same selected value occur twice in a flow? Not for the converters: two processes
    for one output file are outside the documented use."""
    return kind not in ("LaTeXToPDF", "PDFToPNG")


def make_a(kind, name):
    return _A[kind][name]()


# initial files: (relative path, content, age rank); a larger rank is a newer file.
# The converters get the files their selected values name plus bystander files that nothing may touch.
_LATEX_FILES = {
    "changed": [("out/a.tex", "tex a", 1)],
    "unchanged_pdf": [("out/b.tex", "tex b", 2), ("out/b.pdf", "old pdf b", 3)],
    "nochanged_newer": [("out/c.tex", "tex c", 5), ("out/c.pdf", "old pdf c", 4)],   # tex newer
    "nochanged_older": [("out/d.tex", "tex d", 6), ("out/d.pdf", "old pdf d", 7)],   # pdf newer
    "unchanged_nopdf": [("out/e.tex", "tex e", 8)],
}


def initial_files(kind, cfg, a_names=()):
    if kind == "Write" and cfg.endswith("_pre"):
        return [("out/a.csv", "csvtext", 1),          # same content as value csv_a
                ("out/output.txt", "old text", 2),    # differs from value bare
                ("out/sub/b.dat", "t", 3)]            # same content as value sub_b
    if kind == "RenderLaTeX" and cfg == "dir":
        return [("templates/" + n, t, i) for i, (n, t) in enumerate(sorted(TEMPLATES.items()))]
    if kind == "LaTeXToPDF":
        files = [("out/x.tex", "tex x", 9), ("out/x.pdf", "old pdf x", 10)]
        for n in sorted(set(a_names)):
            files.extend(_LATEX_FILES[n])
        return files
    if kind == "PDFToPNG":
        ext = "jpeg" if cfg == "jpeg" else "png"
        per = {"new": [("out/a.pdf", "pdf a", 1)],
               "exists_unchanged": [("out/b.pdf", "pdf b", 2), ("out/b." + ext, "old b", 3)],
               "exists_changed": [("out/c.pdf", "pdf c", 4), ("out/c." + ext, "old c", 5)],
               "exists_nochanged": [("out/d.pdf", "pdf d", 6), ("out/d." + ext, "old d", 7)]}
        files = [("out/x.pdf", "pdf x", 9), ("out/x." + ext, "old x", 10)]
        for n in sorted(set(a_names)):
            files.extend(per[n])
        return files
    return []


T0 = 1000000000


def populate(files):
    for path, content, rank in files:
        d = os.path.dirname(path)
        if d and not os.path.isdir(d):
            os.makedirs(d)
        with open(path, "w") as f:
            f.write(content)
        os.utime(path, (T0 + rank, T0 + rank))


def snapshot(files):
    """Sorted (path, kind, content, rewritten?) of everything below the current directory.
    A file is 'rewritten' when its mtime is not the sentinel it was given by populate()."""
    sentinel = dict((os.path.normpath(p), T0 + r) for p, c, r in files)
    out = []
    for dp, dns, fns in os.walk("."):
        dns.sort()
        for dn in dns:
            out.append((os.path.normpath(os.path.join(dp, dn)), "dir", "", False))
        for fn in sorted(fns):
            p = os.path.normpath(os.path.join(dp, fn))
            with open(p, "rb") as f:
                content = f.read()
            st = os.stat(p)
            rewritten = int(st.st_mtime) != sentinel.get(p, -1)
            out.append((p, "file", content.decode("utf-8", "replace"), rewritten))
    out.sort()
    return tuple(out)


# ------------------------------------------------------------------------------------------------
# canonical form of values (a lean variant of mc.instrument.freeze for the hot loop)
# ------------------------------------------------------------------------------------------------

_NONE = type(None)


def canon(x, _depth=0):
    """Hashable canonical form: dictionaries sorted by key, the types of scalars kept apart
    (1, 1.0 and True are different), objects by type name and attributes."""
    t = type(x)
    if t is dict:
        try:
            return ("d", tuple(sorted([(k, canon(v, _depth + 1)) for k, v in x.items()])))
        except TypeError:   # keys of mixed types
            return ("d", tuple(sorted([(repr(k), canon(v, _depth + 1)) for k, v in x.items()])))
    if t is tuple:
        return ("t", tuple([canon(v, _depth + 1) for v in x]))
    if t is list:
        return ("l", tuple([canon(v, _depth + 1) for v in x]))
    if t is int or t is str:
        return x
    if t is float:
        return ("f", repr(x))
    if t is bool:
        return ("b", x)
    if t is _NONE:
        return ("n",)
    if _depth > 40:
        return ("deep", repr(x))
    if isinstance(x, dict):
        return ("D", t.__name__, tuple(sorted([(repr(k), canon(v, _depth + 1))
                                                for k, v in x.items()])))
    if isinstance(x, (list, tuple)):
        return ("T", t.__name__, tuple([canon(v, _depth + 1) for v in x]))
    if isinstance(x, (set, frozenset)):
        return ("s", tuple(sorted([repr(canon(v, _depth + 1)) for v in x])))
    if hasattr(x, "__dict__") and not callable(x):
        return ("o", t.__name__, canon(vars(x), _depth + 1))
    if callable(x):
        return ("c", getattr(x, "__qualname__", t.__name__))
    return ("r", repr(x))


# ------------------------------------------------------------------------------------------------
# fake converter processes (DESIGN.md 2.3)
# ------------------------------------------------------------------------------------------------

def _digest(path):
    try:
        with open(path, "rb") as f:
            return hashlib.md5(f.read()).hexdigest()[:12]
    except OSError:
        return "missing"


class FakeEnvironment(object):
    """Owns the behaviour of the converter sub-processes of one execution.

    *plan* is a list: plan[j] is the number of the poll() call (1-based) at which the j-th
    launched process reports that it has finished; None = not before communicate()."""

    def __init__(self, plan=()):
        self.plan = list(plan)
        self.commands = []
        self.polls = []      # number of poll() calls answered per process
        self.events = []



class FakePopen(object):
    def __init__(self, env, command):
        self.env = env
        self.index = len(env.commands)
        env.commands.append(list(command))
        env.polls.append(0)
        env.events.append(("launch", self.index))
        self.command = list(command)
        self.returncode = None
        self.stdout = b""
        self.stderr = b""
        self._effect()

    def _effect(self):
        c = self.command
        if c[0] == "pdflatex":
            tex = c[-1]
            pdf = os.path.join(c[c.index("-output-directory") + 1],
                               os.path.basename(tex).replace(".tex", ".pdf"))
            with open(pdf, "w") as f:
                f.write("pdf of " + _digest(tex))
        elif c[0] == "mytex":
            with open(c[2], "w") as f:
                f.write("mypdf of " + _digest(c[3]))
        elif c[0] == "pdftoppm":
            fmt = c[3].lstrip("-")
            with open(c[2] + "." + fmt, "w") as f:
                f.write(fmt + " of " + _digest(c[1]))

    def poll(self):
        env = self.env
        env.polls[self.index] += 1
        k = env.plan[self.index] if self.index < len(env.plan) else None
        if self.returncode is None and k is not None and env.polls[self.index] >= k:
            self.returncode = 0
        env.events.append(("poll", self.index, self.returncode))
        return self.returncode

    def communicate(self, *args, **kwargs):
        self.returncode = 0
        self.env.events.append(("communicate", self.index))
        return (b"", b"")

    def terminate(self):
        self.env.events.append(("terminate", self.index))


class _FakeSubprocess(object):
    PIPE = -1

    def __init__(self):
        self.env = None

    def Popen(self, command, **kwargs):
        return FakePopen(self.env, command)


_fake = _FakeSubprocess()


def install_fake(env):
    """Route the two converter modules' ``subprocess`` to *env* (only their module global)."""
    _fake.env = env
    lena.output.latex_to_pdf.subprocess = _fake
    lena.output.pdf_to_png.subprocess = _fake
