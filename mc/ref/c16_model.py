"""C16 reference model: the wrapped-element alphabet and a boring block interpreter.

Nothing here looks at lena.core.adapters.FillRequest. The reference is written from the statement of
property C16 and the FillRequest docstrings:

    "FillRequest.run yields block by block exactly what the element yields for each consecutive
     block of n values (the element being reset between blocks when reset is set), yields for the
     final partial block only if yield_on_remainder is set and yields nothing for an empty flow."

``ref_blocks`` therefore cuts the values into consecutive blocks of n by list slicing, drives a FRESH
REAL element of the same kind directly (fill.. + request/compute, or run(iter(block))), collects what
it yields per block and resets it between blocks when asked to. The same factories build the element
that is handed to the real FillRequest and the twin driven here.
"""
import lena.core
import lena.flow
import lena.math

FC, FRQ, RUN = "fill_compute", "fill_request", "run"


# --------------------------------------------------------------------------------------------------
# user-level elements of the alphabet (not lena code)

class FReq(object):
    """A fill/request element with reset: request yields the block as one tagged tuple and then the
    number of values it holds (two results per request)."""

    def __init__(self):
        self.vals = []

    def fill(self, value):
        self.vals.append(value)

    def request(self):
        yield ("blk", tuple(self.vals))
        yield ("n", len(self.vals))

    def reset(self):
        self.vals = []


class FReqRun(FReq):
    """A fill/request element that ALSO has run (like MyRun in tests/core/test_fill_request.py):
    FillRequest.run must prefer el.run, fill()/request() use el.fill / el.request.
    run(flow) == fill the whole flow, then request."""

    def run(self, flow):
        for value in flow:
            self.fill(value)
        for result in self.request():
            yield result


class RunMap(object):
    """A lazy, stateful run element with reset: one result per value, carrying how many values
    the element has seen since its last reset."""

    def __init__(self):
        self.seen = 0

    def run(self, flow):
        for value in flow:
            self.seen += 1
            yield (value, self.seen)

    def reset(self):
        self.seen = 0


class RunHead(object):
    """A run element that yields the first value of the flow it is given and returns WITHOUT
    exhausting that flow (as Slice(1) or any early-stopping selector does)."""

    def run(self, flow):
        for value in flow:
            yield ("head", value)
            return


class RunNone(object):
    """A run element that consumes its flow and yields nothing."""

    def run(self, flow):
        for _ in flow:
            pass
        return
        yield None  # pragma: no cover  (makes this a generator)


def _triple(x):
    return 3 * x


# name -> (class of element, factory, allowed values of *reset*, values revealed by a result or None)
KINDS = {
    # fill/compute elements (real lena)
    "sum":        (FC, lambda: lena.math.Sum(), (True, False)),
    "store":      (FC, lambda: lena.flow.StoreFilled(), (True, False)),
    "store_each": (FC, lambda: lena.flow.StoreFilled(yield_as_a_group=False), (True, False)),
    # fill/request elements
    "freq":       (FRQ, FReq, (True, False)),
    "freq_run":   (FRQ, FReqRun, (True, False)),
    # run elements (no fill): only the run driver applies
    "run_store":  (RUN, lambda: lena.core.Run(lena.flow.StoreFilled()), (False,)),
    "run_call":   (RUN, lambda: lena.core.Run(_triple), (False,)),
    "run_map":    (RUN, RunMap, (True, False)),
    "run_head":   (RUN, RunHead, (False,)),
    "run_none":   (RUN, RunNone, (False,)),
}

FILL_KINDS = ("sum", "store", "store_each", "freq", "freq_run")
RUN_KINDS = ("run_store", "run_call", "run_map", "run_head", "run_none")
# kinds whose run() the real FillRequest.run uses (they have a callable run)
USES_EL_RUN = ("freq_run",) + RUN_KINDS


def kind_class(kind):
    return KINDS[kind][0]


def make_element(kind):
    return KINDS[kind][1]()


def resets_of(kind):
    return KINDS[kind][2]


# --------------------------------------------------------------------------------------------------
# method names: "Names for actual fill, request and reset methods can be provided during
# initialization (the latter is set through reset_name)"

NAMES = ("default", "renamed", "decoy")
RENAMED_KW = {"fill": "put", "request": "take", "reset_name": "clear"}


class Renamed(object):
    """An element of any kind of the alphabet seen through other method names: *put* is its fill,
    *take* its request (or compute), *clear* its reset; *run* keeps its name (FillRequest has no
    keyword for it). Without *decoy* nothing else is there. With *decoy* every default name the
    wrapped element answers to (fill, request, compute, reset) is present as well, as an unrelated
    method that is none of the adapter's business: the decoy fill drops its value, the decoy
    request / compute yield a tagged result, the decoy reset leaves the data alone."""

    def __init__(self, el, decoy):
        self.wrapped = el
        if callable(getattr(el, "fill", None)):
            self.put = el.fill
        req = getattr(el, "request", None)
        if not callable(req):
            req = getattr(el, "compute", None)
        if callable(req):
            self.take = req
        if callable(getattr(el, "reset", None)):
            self.clear = el.reset
        if callable(getattr(el, "run", None)):
            self.run = el.run
        self.decoy_calls = []
        if decoy:
            for name in ("fill", "request", "compute", "reset"):
                if callable(getattr(el, name, None)):
                    setattr(self, name, self._decoy(name))

    def _decoy(self, name):
        calls = self.decoy_calls
        if name in ("request", "compute"):
            def method():
                calls.append(name)
                yield ("decoy", name)
        elif name == "fill":
            def method(value):
                calls.append(name)
        else:
            def method():
                calls.append(name)
        return method


def has_renamable(kind):
    """Whether an element of *kind* has a method FillRequest takes the name of (fill, request, reset)."""
    el = make_element(kind)
    return any(callable(getattr(el, name, None)) for name in ("fill", "request", "reset"))


RENAMABLE_KINDS = tuple(k for k in FILL_KINDS + RUN_KINDS if has_renamable(k))


def make_named_element(kind, names):
    """(element to hand to FillRequest, extra keyword arguments naming its methods)"""
    el = make_element(kind)
    if names == "default":
        return el, {}
    return Renamed(el, names == "decoy"), dict(RENAMED_KW)


def flow_values(kind, k):
    """k distinct values. Powers of two for Sum (a sum identifies the set of values in it)."""
    if kind == "sum":
        return [2 ** i for i in range(k)]
    return list(range(1, k + 1))


NONE_OK = ("store", "store_each", "freq", "freq_run", "run_store", "run_map", "run_head", "run_none")


def flow_values_with_none(kind, k):
    """The same flow with None at every even position, first included (elements that do not compute
    with their values): None is a value, never the end of a flow or of a block."""
    return [None if i % 2 == 0 else v for i, v in enumerate(flow_values(kind, k))]


def values_in_result(kind, result):
    """The flow values one result of a value-revealing element shows, else None."""
    if kind == "store":
        return list(result)
    if kind in ("freq", "freq_run"):
        if isinstance(result, tuple) and result and result[0] == "blk":
            return list(result[1])
        return []
    return None


def _requester(el):
    req = getattr(el, "request", None)
    if callable(req):
        return req
    return el.compute


def ref_blocks(kind, values, n, reset, partial, via, reset_every=None):
    """Per-block results of a fresh element of *kind* on consecutive blocks of *n* of *values*.

    partial: also the final block of fewer than n (but at least one) values (yield_on_remainder).
    via: "run" - the element's run method is given iter(block); "fill" - fill each value, then
    request (or compute). The element is reset after each block when *reset*.
    reset_every: j - the element is also reset after every j-th block, whatever *reset* says (an
    outer adapter with reset=True whose block is j blocks of this one resets the element between
    ITS blocks).
    """
    el = make_element(kind)
    out = []
    for start in range(0, len(values), n):
        block = values[start:start + n]
        if len(block) < n and not partial:
            break
        if via == "run":
            results = list(el.run(iter(block)))
        else:
            for value in block:
                el.fill(value)
            results = list(_requester(el)())
        out.append(results)
        if reset or (reset_every and len(out) % reset_every == 0):
            el.reset()
    return out


def concat(blocks):
    out = []
    for b in blocks:
        out.extend(b)
    return out
