"""C20 child: runs inside a FRESH interpreter (one import configuration per process).

Started by mc/checks/c20.py as

    /venv/bin/python /verif/mc/ref/c20_child.py REQUEST.json RESPONSE.json

with PYTHONPATH=<tree under test>. The request names the import configuration
("only": subpackage X  or  "whole": list of all subpackages in the order to import) and a list
of jobs. Nothing of lena is imported before the configuration is set up; the set of lena modules
present is recorded before and after every dynamic probe.

Jobs:
  {"job": "names"}                      part (a): __all__ of the configured subpackage
  {"job": "static", "files": [...]}     part (c): all load sites of the given files
  {"job": "probes", "probes": [...]}    part (b): canned drivers / argument perturbations

This file must not import anything from mc (it runs without /verif on sys.path) and is boring on
purpose: it executes and describes, the judging is done by the parent.
"""
import ast
import builtins
import dis
import importlib
import importlib.util
import itertools
import json
import os
import re
import signal
import sys
import traceback
import types

ROOT = None          # realpath of the tree under test (directory that contains lena/)
LENA_DIR = None


# ------------------------------------------------------------------------------------------------
# configuration
# ------------------------------------------------------------------------------------------------

def lena_modules():
    return sorted(k for k in sys.modules if k == "lena" or k.startswith("lena."))


def setup_config(cfg, root):
    global ROOT, LENA_DIR
    ROOT = os.path.realpath(root)
    LENA_DIR = os.path.join(ROOT, "lena")
    pre = lena_modules()
    if pre:
        raise RuntimeError("lena modules present before configuration: %r" % (pre,))
    for name in cfg.get("without", []):
        # an optional third-party dependency that is not installed: importing it raises ImportError
        sys.modules[name] = None
    if cfg["kind"] == "only":
        importlib.import_module("lena." + cfg["subpackage"])
    else:
        for sp in cfg["order"]:
            importlib.import_module("lena." + sp)
    import lena
    origin = os.path.realpath(list(lena.__path__)[0])
    if origin != LENA_DIR:
        raise RuntimeError("lena imported from %s, expected %s" % (origin, LENA_DIR))
    for k in lena_modules():
        f = getattr(sys.modules[k], "__file__", None)
        if f and not os.path.realpath(f).startswith(LENA_DIR + os.sep):
            raise RuntimeError("module %s imported from %s" % (k, f))


# ------------------------------------------------------------------------------------------------
# part (a): advertised names
# ------------------------------------------------------------------------------------------------

def job_names(sp):
    mod = sys.modules["lena." + sp]
    has_all = hasattr(mod, "__all__")
    names = list(getattr(mod, "__all__", []))
    out = {"subpackage": sp, "has_all": has_all, "names": []}
    for n in names:
        out["names"].append([n if isinstance(n, str) else repr(n), isinstance(n, str) and hasattr(mod, n)])
    ns = {}
    try:
        exec("from lena.%s import *" % sp, ns)
        star = "ok"
        bound = sorted(k for k in ns if k != "__builtins__")
    except BaseException as e:  # noqa
        star = type(e).__name__
        bound = []
    out["star"] = star
    out["star_bound"] = bound
    # exception hierarchy (anchor: lena/core/exceptions.py) - only meaningful for core
    hier = []
    if sp == "core":
        base = getattr(mod, "LenaException", None)
        for n in names:
            if isinstance(n, str) and n.startswith("Lena") and (n.endswith("Error") or n == "LenaStopFill"):
                o = getattr(mod, n, None)
                hier.append([n, isinstance(o, type) and isinstance(base, type) and issubclass(o, base)])
    out["hierarchy"] = hier
    return out


# ------------------------------------------------------------------------------------------------
# part (c): static load sites on the real interpreter state
# ------------------------------------------------------------------------------------------------

_ALLOWED = (ast.Compare, ast.BoolOp, ast.UnaryOp, ast.Not, ast.And, ast.Or, ast.Constant, ast.Tuple,
            ast.Attribute, ast.Subscript, ast.Name, ast.Load, ast.Eq, ast.NotEq, ast.Lt, ast.LtE,
            ast.Gt, ast.GtE, ast.Slice)


def _version_constant(expr):
    """(True, value) if *expr* is built only from sys.version_info and constants."""
    saw_version = False
    for node in ast.walk(expr):
        if not isinstance(node, _ALLOWED):
            return False, None
        if isinstance(node, ast.Name):
            if node.id != "sys":
                return False, None
        if isinstance(node, ast.Attribute):
            if isinstance(node.value, ast.Name):
                if node.attr != "version_info":
                    return False, None
                saw_version = True
            elif node.attr not in ("major", "minor", "micro"):
                return False, None
    if not saw_version:
        return False, None
    try:
        code = compile(ast.fix_missing_locations(ast.Expression(body=expr)), "<guard>", "eval")
        return True, bool(eval(code, {"sys": sys, "__builtins__": {}}))
    except Exception:
        return False, None


class _Fold(ast.NodeTransformer):
    """Fold away code under guards that are constant on this interpreter (sys.version_info tests)."""

    def __init__(self):
        self.folded = 0

    def _simplify(self, test):
        ok, val = _version_constant(test)
        if ok:
            return ast.copy_location(ast.Constant(value=val), test)
        if isinstance(test, ast.BoolOp):
            vals = [self._simplify(v) for v in test.values]
            is_and = isinstance(test.op, ast.And)
            keep = []
            for v in vals:
                if isinstance(v, ast.Constant) and isinstance(v.value, bool):
                    if v.value is (not is_and):
                        # False in an 'and' / True in an 'or': operands to the right are dead and the
                        # value is decided unless an earlier operand already decided otherwise
                        # (earlier operands are kept for their own load sites)
                        if not keep:
                            return ast.copy_location(ast.Constant(value=v.value), test)
                        keep.append(v)
                        break
                    continue  # neutral operand
                keep.append(v)
            if not keep:
                return ast.copy_location(ast.Constant(value=is_and), test)
            if len(keep) == 1:
                return keep[0]
            return ast.copy_location(ast.BoolOp(op=test.op, values=keep), test)
        if isinstance(test, ast.UnaryOp) and isinstance(test.op, ast.Not):
            inner = self._simplify(test.operand)
            if isinstance(inner, ast.Constant) and isinstance(inner.value, bool):
                return ast.copy_location(ast.Constant(value=not inner.value), test)
        return test

    def visit_If(self, node):
        test = self._simplify(node.test)
        if isinstance(test, ast.Constant) and isinstance(test.value, bool):
            self.folded += 1
            chosen = node.body if test.value else node.orelse
            out = []
            for st in chosen:
                r = self.visit(st)
                if isinstance(r, list):
                    out.extend(r)
                elif r is not None:
                    out.append(r)
            return out or [ast.copy_location(ast.Pass(), node)]
        node.test = test
        self.generic_visit(node)
        return node

    def visit_IfExp(self, node):
        test = self._simplify(node.test)
        if isinstance(test, ast.Constant) and isinstance(test.value, bool):
            self.folded += 1
            return self.visit(node.body if test.value else node.orelse)
        node.test = test
        self.generic_visit(node)
        return node

    def visit_BoolOp(self, node):
        new = self._simplify(node)
        if new is node:
            self.generic_visit(node)
            return node
        if isinstance(new, ast.BoolOp):
            self.generic_visit(new)
            return new
        self.folded += 1
        return self.visit(new) if not isinstance(new, ast.Constant) else new


_LOADS = ("LOAD_GLOBAL", "LOAD_NAME", "LOAD_FROM_DICT_OR_GLOBALS")
_LOCAL_LOADS = ("LOAD_FAST", "LOAD_FAST_CHECK", "LOAD_DEREF", "LOAD_CLOSURE", "LOAD_FAST_AND_CLEAR")
_STORES = ("STORE_FAST", "STORE_NAME", "STORE_GLOBAL", "STORE_DEREF")
_ATTR = ("LOAD_ATTR", "LOAD_METHOD")


def _walk_code(code):
    yield code
    for c in code.co_consts:
        if isinstance(c, types.CodeType):
            for x in _walk_code(c):
                yield x


def _module_name(path):
    rel = os.path.relpath(path, ROOT)
    parts = rel[:-3].split(os.sep)
    if parts[-1] == "__init__":
        parts = parts[:-1]
    return ".".join(parts)


def _is_lena_mod(obj):
    return isinstance(obj, types.ModuleType) and (obj.__name__ == "lena" or obj.__name__.startswith("lena."))


def _static_scope(code):
    """Names bound at module level, judged from the module's own code object (used only when the
    module cannot be imported in this environment, e.g. it needs ROOT or numpy at import)."""
    names = set()
    for ins in dis.get_instructions(code):
        if ins.opname in ("STORE_NAME", "STORE_GLOBAL"):
            names.add(ins.argval)
    for c in _walk_code(code):
        for ins in dis.get_instructions(c):
            if ins.opname == "STORE_GLOBAL":
                names.add(ins.argval)
    return names


def scan_file(path):
    """All load sites of one source file, resolved on the live interpreter.

    Returns {"file", "module", "imported", "sites": [...], "deferred": [...]}; a site is
      {"kind": "global", "scope", "name", "line", "resolved": bool, "where": "module"|"builtins"|None}
      {"kind": "chain", "scope", "root", "attrs": [...], "line", "ok": bool, "failed_on": modname,
       "missing": attr, "steps": n}      (only chains whose root is a module object)
      {"kind": "from", "scope", "module", "name", "line", "ok": bool}     (lena-internal from-imports)
    """
    rel = os.path.relpath(path, ROOT)
    with open(path, "rb") as f:
        src = f.read()
    tree = ast.parse(src, filename=path)
    folder = _Fold()
    tree = folder.visit(tree)
    ast.fix_missing_locations(tree)
    code = compile(tree, path, "exec", dont_inherit=True)
    modname = _module_name(path)
    package = modname if os.path.basename(path) == "__init__.py" else modname.rpartition(".")[0]
    imported = True
    import_error = None
    before = set(lena_modules())
    try:
        mod = importlib.import_module(modname)
        scope = vars(mod)
    except BaseException as e:  # noqa - optional dependency missing at import time
        imported = False
        import_error = type(e).__name__
        mod = None
        scope = dict.fromkeys(_static_scope(code))
    newly = sorted(set(lena_modules()) - before)
    sites = []
    bvars = vars(builtins)
    store_global = _static_scope(code) if not imported else set()
    for c in _walk_code(code):
        qual = getattr(c, "co_qualname", c.co_name)
        is_classbody = not (c.co_flags & 0x1) and c is not code   # not CO_OPTIMIZED: class body
        instrs = list(dis.get_instructions(c))
        class_locals = set()
        if is_classbody or c is code:
            class_locals = {i.argval for i in instrs if i.opname == "STORE_NAME"}
        # locals bound by import statements in this code object
        store_counts = {}
        for i in instrs:
            if i.opname in _STORES:
                store_counts[i.argval] = store_counts.get(i.argval, 0) + 1
        import_bound = {}
        k = 0
        n = len(instrs)
        while k < n:
            ins = instrs[k]
            if ins.opname == "IMPORT_NAME":
                level = 0
                # the two preceding LOAD_CONSTs are level and fromlist
                if k >= 2 and instrs[k - 2].opname == "LOAD_CONST" and isinstance(instrs[k - 2].argval, int):
                    level = instrs[k - 2].argval
                target = ins.argval
                try:
                    full = importlib.util.resolve_name("." * level + target, package) if level else target
                except Exception:
                    full = None
                line = ins.positions.lineno if ins.positions else None
                j = k + 1
                if j < n and instrs[j].opname in _STORES:
                    # import a.b.c  -> binds the top-level package
                    if full:
                        import_bound[instrs[j].argval] = ("pkg", full, line)
                    k = j + 1
                    continue
                while j < n and instrs[j].opname == "IMPORT_FROM":
                    nm = instrs[j].argval
                    if j + 1 < n and instrs[j + 1].opname in _STORES:
                        if full:
                            import_bound[instrs[j + 1].argval] = ("from", full, nm, line)
                            if full == "lena" or full.startswith("lena."):
                                sites.append({"kind": "from", "scope": qual, "module": full, "name": nm,
                                              "line": line})
                        j += 2
                    else:
                        break
                k = j
                continue
            k += 1
        # names bound both by an import and otherwise are not tracked as module roots
        for nm in list(import_bound):
            binds = sum(1 for i in instrs if i.opname in _STORES and i.argval == nm)
            if c is not code and binds != 1:
                del import_bound[nm]
        k = 0
        while k < n:
            ins = instrs[k]
            op = ins.opname
            if op in _LOADS or op == "DELETE_GLOBAL":
                name = ins.argval
                line = ins.positions.lineno if ins.positions else None
                resolved_where = None
                if op in ("LOAD_NAME", "LOAD_FROM_DICT_OR_GLOBALS") and is_classbody and name in class_locals:
                    resolved_where = "class"
                elif name in scope:
                    resolved_where = "module"
                elif name in bvars:
                    resolved_where = "builtins"
                sites.append({"kind": "global", "scope": qual, "name": name, "line": line,
                              "resolved": resolved_where is not None, "where": resolved_where})
                root_obj = scope.get(name) if (resolved_where == "module" and imported) else None
                attrs = []
                j = k + 1
                while j < n and instrs[j].opname in _ATTR:
                    attrs.append(instrs[j].argval)
                    j += 1
                if attrs and isinstance(root_obj, types.ModuleType):
                    sites.append(_resolve_chain(qual, name, root_obj, attrs, line))
                k = j
                continue
            if op in _LOCAL_LOADS and ins.argval in import_bound and c is not code:
                info = import_bound[ins.argval]
                line = ins.positions.lineno if ins.positions else None
                attrs = []
                j = k + 1
                while j < n and instrs[j].opname in _ATTR:
                    attrs.append(instrs[j].argval)
                    j += 1
                if attrs and (info[1] == "lena" or info[1].startswith("lena.")):
                    sites.append({"kind": "local_chain", "scope": qual, "root": ins.argval,
                                  "bind": list(info[:-1]), "attrs": attrs, "line": line})
                k = j
                continue
            k += 1
    return {"file": rel, "module": modname, "imported": imported, "import_error": import_error,
            "newly_imported": newly, "folded": folder.folded, "sites": sites}


def _resolve_chain(qual, rootname, obj, attrs, line):
    steps = 0
    dotted = rootname
    for a in attrs:
        if not isinstance(obj, types.ModuleType):
            break
        if not hasattr(obj, a):
            return {"kind": "chain", "scope": qual, "root": rootname, "attrs": attrs, "line": line,
                    "ok": False, "failed_on": obj.__name__, "missing": a, "steps": steps,
                    "lena": _is_lena_mod(obj)}
        obj = getattr(obj, a)
        steps += 1
        dotted += "." + a
    return {"kind": "chain", "scope": qual, "root": rootname, "attrs": attrs, "line": line,
            "ok": True, "steps": steps, "lena": True}


def resolve_deferred(sites):
    """Second phase for sites that need an import performed at call time (function-level
    'import lena.x' / 'from lena.x import y'). They are evaluated after every other site of the
    configuration, one by one, performing the import the function itself would perform."""
    for s in sites:
        if s["kind"] == "from":
            try:
                m = importlib.import_module(s["module"])
                ok = hasattr(m, s["name"])
                if not ok:
                    try:
                        importlib.import_module(s["module"] + "." + s["name"])
                        ok = True
                    except ImportError:
                        ok = False
                s["ok"] = ok
                s["exc"] = None
            except BaseException as e:  # noqa
                s["ok"] = False
                s["exc"] = type(e).__name__
        elif s["kind"] == "local_chain":
            bind = s["bind"]
            try:
                if bind[0] == "pkg":
                    importlib.import_module(bind[1])
                    obj = sys.modules[bind[1].split(".")[0]]
                    rootname = bind[1].split(".")[0]
                else:
                    m = importlib.import_module(bind[1])
                    if hasattr(m, bind[2]):
                        obj = getattr(m, bind[2])
                    else:
                        obj = importlib.import_module(bind[1] + "." + bind[2])
                    rootname = bind[1] + "." + bind[2]
            except BaseException as e:  # noqa
                s.update({"ok": True, "steps": 0, "skipped": type(e).__name__})
                continue
            if isinstance(obj, types.ModuleType):
                r = _resolve_chain(s["scope"], rootname, obj, s["attrs"], s["line"])
                s.update({k: v for k, v in r.items() if k not in ("kind", "root")})
            else:
                s.update({"ok": True, "steps": 0})
    return sites


def job_static(files):
    out = []
    # modules the configuration has already imported are judged first, on the untouched state;
    # a module that has to be imported here (not reachable from the subpackage's __init__) comes last
    files = sorted(files, key=lambda rel: (_module_name(os.path.join(ROOT, rel)) not in sys.modules, rel))
    for rel in files:
        out.append(scan_file(os.path.join(ROOT, rel)))
    # deferred phase, after all direct sites of all files have been judged on the clean state
    for rec in out:
        resolve_deferred([s for s in rec["sites"] if s["kind"] in ("from", "local_chain")])
    return out


# ------------------------------------------------------------------------------------------------
# part (b): dynamic probes
# ------------------------------------------------------------------------------------------------

_ADDR = re.compile(r" at 0x[0-9a-fA-F]+|(?<=memory:)[0-9a-fA-F]+")    # also jinja2: <Template memory:7f...>
_DIVE = ("lena", "c20_prelude", "ROOT")


def canon(x, depth=0):
    """Deterministic description of a result (no addresses, bounded depth)."""
    if depth > 7:
        return "..."
    if isinstance(x, (str, bytes)):
        return _ADDR.sub("", repr(x))      # reprs of functions end up inside formatted strings
    if x is None or isinstance(x, (bool, int)):
        return repr(x)
    if isinstance(x, float):
        return repr(x)
    if isinstance(x, (list, tuple)):
        inner = ",".join(canon(v, depth + 1) for v in itertools.islice(x, 40))
        nm = type(x).__name__
        return "%s[%s]" % (nm, inner)
    if isinstance(x, dict):
        items = sorted(((canon(k, depth + 1), canon(v, depth + 1)) for k, v in x.items()))
        return "%s{%s}" % (type(x).__name__, ",".join("%s:%s" % kv for kv in items[:40]))
    if isinstance(x, (set, frozenset)):
        return "set{%s}" % ",".join(sorted(canon(v, depth + 1) for v in x))
    if isinstance(x, types.ModuleType):
        return "<module %s>" % x.__name__
    if isinstance(x, type):
        return "<class %s.%s>" % (x.__module__, x.__qualname__)
    if isinstance(x, (types.FunctionType, types.BuiltinFunctionType, types.MethodType)):
        return "<function %s>" % getattr(x, "__qualname__", getattr(x, "__name__", "?"))
    if isinstance(x, types.GeneratorType):
        return "<generator %s>" % x.__qualname__
    tmod = type(x).__module__ or ""
    tname = "%s.%s" % (tmod, type(x).__qualname__)
    d = getattr(x, "__dict__", None)
    if isinstance(d, dict) and depth < 4 and tmod.split(".")[0] in _DIVE:
        return "<%s %s>" % (tname, canon(d, depth + 1))
    try:
        r = repr(x)
    except Exception as e:
        r = "<repr raised %s>" % type(e).__name__
    return "<%s %s>" % (tname, _ADDR.sub("", r)[:200])


class _Timeout(BaseException):
    pass


def _alarm(signum, frame):
    raise _Timeout()


def describe_exc(e):
    """Type name plus the facts the property speaks about (never the message)."""
    info = {"type": type(e).__name__, "lena_exception": False, "forbidden": None}
    le = getattr(sys.modules.get("lena.core"), "LenaException", None)
    if isinstance(le, type):
        info["lena_exception"] = isinstance(e, le)
    tb = e.__traceback__
    last = None
    while tb is not None:
        last = tb
        tb = tb.tb_next
    where = None
    in_lena = False
    if last is not None:
        co = last.tb_frame.f_code
        fn = co.co_filename
        if not fn.startswith("<"):
            fn = os.path.realpath(fn)
        if LENA_DIR and fn.startswith(LENA_DIR + os.sep):
            in_lena = True
            where = [os.path.relpath(fn, ROOT), getattr(co, "co_qualname", co.co_name), last.tb_lineno]
    info["where"] = where
    if isinstance(e, NameError) and in_lena:
        kind = "UnboundLocalError" if isinstance(e, UnboundLocalError) else "NameError"
        info["forbidden"] = {"exc": kind, "name": getattr(e, "name", None)}
    elif isinstance(e, AttributeError) and not info["lena_exception"]:
        obj = getattr(e, "obj", None)
        if _is_lena_mod(obj):
            info["forbidden"] = {"exc": "AttributeError-on-lena-module", "module": obj.__name__,
                                 "name": getattr(e, "name", None)}
    return info


PRELUDE = '''
import sys as _sys
def ident(x): return x
def is_int(x): return isinstance(x, int)
def true(x): return True
def first(x): return x[0]
def raiser(x): raise ZeroDivisionError("raiser")
def raise_catch(e, base):
    try:
        raise e
    except base as x:
        return type(x).__name__
def dict_after(f):
    d = {}
    f(d)
    return d
class Plain(object):
    """an object without any lena method"""
    def __repr__(self): return "Plain()"
class Collector(object):
    def __init__(self): self.got = []
    def fill(self, value): self.got.append(value)
class FC(object):
    def __init__(self): self.vals = []
    def fill(self, v): self.vals.append(v)
    def compute(self): yield len(self.vals)
    def reset(self): self.vals = []
    def __repr__(self): return "FC()"
class FC2(FC):
    def compute(self):
        yield len(self.vals)
        yield (len(self.vals), {"second": True})
class FCnoreset(object):
    def __init__(self): self.vals = []
    def fill(self, v): self.vals.append(v)
    def compute(self): yield len(self.vals)
class FR(object):
    def __init__(self): self.vals = []
    def fill(self, v): self.vals.append(v)
    def request(self): yield len(self.vals)
    def reset(self): self.vals = []
    def __repr__(self): return "FR()"
class RunEl(object):
    def run(self, flow):
        for v in flow: yield v
    def __repr__(self): return "RunEl()"
class Scalable(object):
    def __init__(self, s): self.s = s
    def scale(self, other=None):
        if other is None: return self.s
        if self.s == 0: raise ValueError("zero scale")
        self.s = other
    def __repr__(self): return "Scalable(%r)" % (self.s,)
def gen12():
    yield 1
    yield 2
def fake_tree():
    return _sys.modules["ROOT"].TTree("tr", "tr")
'''


_PRELUDE_CODE = compile(PRELUDE, "<c20 prelude>", "exec")


def make_fake_root():
    """A stand-in for PyROOT without behaviour: enough for 'import ROOT' and isinstance tests."""
    m = types.ModuleType("ROOT")

    class TObject(object):
        pass

    class TFile(TObject):
        def __init__(self, name, option="read", *args):
            self._name = str(name)
            self._open = True
            self.written = []

        def GetName(self):
            return self._name

        def IsOpen(self):
            return self._open

        def Close(self):
            self._open = False

        def GetListOfKeys(self):
            return []

        def Get(self, key):
            return None

        def WriteTObject(self, obj):
            self.written.append(obj)

    class TTree(TObject):
        def __init__(self, name="tree", title=""):
            self._name = name
            self.branches = []
            self.nfill = 0

        def GetName(self):
            return self._name

        def SetDirectory(self, d):
            pass

        def Branch(self, name, arr, leaflist):
            self.branches.append((name, leaflist))

        def Fill(self):
            self.nfill += 1

        def SetBranchStatus(self, name, status):
            pass

        def GetListOfBranches(self):
            return []

        def __iter__(self):
            return iter(())

    class TGraphErrors(TObject):
        def __init__(self, n, xs, ys, exs, eys):
            self.n, self.xs, self.ys, self.exs, self.eys = n, list(xs), list(ys), exs, eys

        def GetN(self):
            return self.n

        def GetX(self):
            return self.xs

        def GetY(self):
            return self.ys

        def GetEX(self):
            return list(self.exs) if self.exs is not None else [0.0] * self.n

        def GetEY(self):
            return list(self.eys) if self.eys is not None else [0.0] * self.n

    for c in (TObject, TFile, TTree, TGraphErrors):
        c.__module__ = "ROOT"
        setattr(m, c.__name__, c)
    m.nullptr = None
    return m


def _mk_env(sp, needs=()):
    env = {"__builtins__": builtins, "__name__": "c20_prelude", "itertools": itertools}
    env["P"] = sys.modules["lena." + sp]
    for nd in needs or ():
        importlib.import_module(nd)
    if needs:
        env["lena"] = sys.modules["lena"]
    exec(_PRELUDE_CODE, env)
    return env


def _ev(src, env):
    return eval(compile(src, "<probe>", "eval"), env)


def _step(out, label, thunk):
    try:
        v = thunk()
        out.append([label, "ok", canon(v)])
        return True, v
    except _Timeout:
        raise
    except Exception as e:  # noqa
        out.append([label, "exc", describe_exc(e)])
        return False, None


_counter = [0]


def run_probe(p):
    """Execute one (fully expanded) probe descriptor in a private directory."""
    out = []
    env = _mk_env(p["sp"], p.get("needs"))
    pre = lena_modules()
    d = os.path.join(os.getcwd(), "p%06d" % _counter[0])
    _counter[0] += 1
    os.mkdir(d)
    old = os.getcwd()
    os.chdir(d)
    if p.get("fake_root"):
        sys.modules["ROOT"] = make_fake_root()
    signal.setitimer(signal.ITIMER_REAL, float(p.get("timeout", 30)))
    timed_out = False
    try:
        if p.get("setup"):
            exec(compile(p["setup"], "<setup>", "exec"), env)
        _run_probe_body(p, env, out)
    except _Timeout:
        timed_out = True
    finally:
        signal.setitimer(signal.ITIMER_REAL, 0)
        os.chdir(old)
        if p.get("fake_root"):
            sys.modules.pop("ROOT", None)
    post = lena_modules()
    return {"id": p["id"], "steps": out, "imported": sorted(set(post) - set(pre)), "timeout": timed_out}


def _materialise(r):
    if isinstance(r, types.GeneratorType) or (hasattr(r, "__next__") and hasattr(r, "__iter__")):
        return list(itertools.islice(r, 50))
    return r


def _run_probe_body(p, env, out):
    # The callable and its arguments are looked up in the configured interpreter like everything else: a
    # public name that the package does not bind (AttributeError on a lena module), or a lena callable
    # that fails while an argument is built, is an OBSERVATION of the tree under test - a step "resolve" -
    # and is judged like every other step. Anything else that goes wrong here is a mistake of the canned
    # driver (a harness bug) and stops the run.
    def build():
        return (_ev(p["target"], env), [_ev(a, env) for a in p.get("args", [])],
                {k: _ev(v, env) for k, v in sorted(p.get("kwargs", {}).items())})
    try:
        target, args, kwargs = build()
    except _Timeout:
        raise
    except Exception as e:  # noqa
        info = describe_exc(e)
        if not (info["forbidden"] or info["where"]):
            raise RuntimeError("probe %r: cannot build the call: %r" % (p["id"], e))
        out.append(["resolve", "exc", info])
        return
    ok, obj = _step(out, "construct", lambda: target(*args, **kwargs))
    if not ok:
        return
    if not isinstance(obj, (bool, int, float, str, type(None), list, tuple, dict)):
        out[-1][2] = "<%s>" % type(obj).__name__   # the object's state is observed through its methods
    drive = p.get("drive") or "auto"
    if drive == "none":
        return
    flow_src = p.get("flow")
    Collector = env["Collector"]

    def flow():
        return _ev(flow_src, env)

    env["R"] = obj
    if drive == "result":
        ok, obj = _step(out, "result", lambda: _materialise(obj))
        env["R"] = obj
        for post in p.get("posts", []):
            _step(out, "post:" + post, lambda post=post: _materialise(_ev(post, env)))
        return
    kinds = drive.split("+") if drive != "auto" else _auto_kinds(obj)
    for kind in kinds:
        if kind == "call1":
            for i, v in enumerate(flow()):
                _step(out, "call(%d)" % i, lambda v=v: _materialise(obj(v)))
        elif kind == "call0":
            _step(out, "call()", lambda: list(itertools.islice(obj(), 5)))
        elif kind == "run":
            # an empty flow first (the loop body never runs: names bound only inside it), then the flow
            _step(out, "run-empty", lambda: list(itertools.islice(obj.run(iter([])), 50)))
            _step(out, "run", lambda: list(itertools.islice(obj.run(iter(flow())), 50)))
        elif kind == "fill_compute":
            for i, v in enumerate(flow()):
                _step(out, "fill(%d)" % i, lambda v=v: obj.fill(v))
            _step(out, "compute", lambda: list(itertools.islice(obj.compute(), 50)))
        elif kind == "compute_empty":
            _step(out, "compute_empty", lambda: list(itertools.islice(obj.compute(), 50)))
        elif kind == "fill_request":
            for i, v in enumerate(flow()):
                _step(out, "fill(%d)" % i, lambda v=v: obj.fill(v))
            _step(out, "request", lambda: list(itertools.islice(obj.request(), 50)))
        elif kind == "fill":
            for i, v in enumerate(flow()):
                _step(out, "fill(%d)" % i, lambda v=v: obj.fill(v))
        elif kind == "reset":
            _step(out, "reset", lambda: obj.reset())
        elif kind == "fill_into":
            col = Collector()
            for i, v in enumerate(flow()):
                _step(out, "fill_into(%d)" % i, lambda v=v: obj.fill_into(col, v))
            out.append(["filled", "ok", canon(col.got)])
        elif kind == "repr":
            _step(out, "repr", lambda: _ADDR.sub("", repr(obj)))
        elif kind == "eq":
            _step(out, "eq", lambda: (obj == obj, obj != obj))
        elif kind == "state":
            out.append(["state", "ok", canon(obj)])
        elif kind == "post":
            for post in p.get("posts", []):
                _step(out, "post:" + post, lambda post=post: _materialise(_ev(post, env)))
        else:
            raise RuntimeError("unknown drive kind %r" % kind)


def _auto_kinds(obj):
    kinds = []
    if callable(getattr(obj, "run", None)):
        kinds.append("run")
    if callable(getattr(obj, "fill", None)) and callable(getattr(obj, "compute", None)):
        kinds.append("fill_compute")
    elif callable(getattr(obj, "fill", None)) and callable(getattr(obj, "request", None)):
        kinds.append("fill_request")
    elif callable(getattr(obj, "fill", None)):
        kinds.append("fill")
    if callable(getattr(obj, "fill_into", None)):
        kinds.append("fill_into")
    if not kinds and callable(obj) and not isinstance(obj, type):
        kinds.append("call1")
    if callable(getattr(obj, "reset", None)):
        kinds.append("reset")
    kinds.append("repr")
    return kinds


def _sites(entry, env):
    """Argument positions of one canned call: given positionals, given keywords, every other named
    parameter of the real signature, and one extra positional where *args is accepted."""
    sites = [["pos", i] for i in range(len(entry["args"]))]
    sites += [["kw", k] for k in sorted(entry["kwargs"])]
    try:
        import inspect
        sig = inspect.signature(_ev(entry["target"], env))
    except Exception:
        return sites
    params = list(sig.parameters.values())
    npos = len(entry["args"])
    consumed = 0
    for prm in params:
        if prm.kind in (prm.POSITIONAL_ONLY, prm.POSITIONAL_OR_KEYWORD):
            if consumed < npos:
                consumed += 1
                continue
            if prm.kind == prm.POSITIONAL_OR_KEYWORD and prm.name not in entry["kwargs"] \
                    and prm.default is not prm.empty:
                sites.append(["kw", prm.name])
        elif prm.kind == prm.KEYWORD_ONLY:
            if prm.name not in entry["kwargs"] and prm.default is not prm.empty:
                sites.append(["kw", prm.name])
        elif prm.kind == prm.VAR_POSITIONAL:
            sites.append(["extra", npos])
    return sites


def _mutate(entry, changes):
    p = dict(entry)
    p["args"] = list(entry["args"])
    p["kwargs"] = dict(entry["kwargs"])
    for site, src in changes:
        if site[0] == "pos":
            p["args"][site[1]] = src
        elif site[0] == "kw":
            p["kwargs"][site[1]] = src
        else:
            p["args"].append(src)
    p["site"] = [[s, v] for s, v in changes]
    return p


def expand(entries, default_flow, pool, pool_pairs):
    """The deterministic list of probes of a group of entries (identical in every configuration)."""
    out = []
    envs = {}
    for e in entries:
        env = envs.get(e["sp"])
        if env is None:
            env = envs[e["sp"]] = _mk_env(e["sp"])
        base = dict(e)
        base["site"] = []
        out.append(base)
        driven = e["drive"] not in ("result", "none", "post", "repr+post", "post+repr")
        if driven and e["flow"] != default_flow:
            g = dict(base)
            g["flow"] = default_flow
            g["site"] = [[["flow", None], "generic"]]
            out.append(g)
        if not e["perturb"]:
            continue
        sites = _sites(e, env)
        for s in sites:
            for v in pool:
                out.append(_mutate(e, [(s, v)]))
        if pool_pairs:
            for s1, s2 in itertools.combinations(sites, 2):
                for v1 in pool_pairs:
                    for v2 in pool_pairs:
                        out.append(_mutate(e, [(s1, v1), (s2, v2)]))
    for p in out:
        site = ";".join("%s%s=%s" % (s[0], "" if s[1] is None else s[1], v) for s, v in p["site"])
        p["id"] = "%s.%s[%s]%s" % (p["sp"], p["element"], p["tag"], ("{" + site + "}") if site else "")
    return out


def job_expand_run(job):
    probes = expand(job["entries"], job["default_flow"], job["pool"], job.get("pool_pairs"))
    start = job.get("start", 0)
    end = job.get("end")
    if end is None:
        end = len(probes)
    results = []
    nxt = None
    for i in range(start, end):
        r = run_probe(probes[i])
        r["index"] = i
        r["probe"] = probes[i]
        results.append(r)
        if r["timeout"]:
            nxt = i + 1
            break
        if r["imported"] and job.get("stop_on_import"):
            nxt = i + 1
            break
    return {"total": len(probes), "results": results, "next": nxt if (nxt is not None and nxt < end) else None}


def job_probes(job):
    """Explicit, already expanded probes (replay)."""
    return [dict(run_probe(p), probe=p) for p in job["probes"]]


def job_public(sp):
    """Public names of the configured subpackage: __all__ if present, otherwise the public
    non-module attributes (what a star import binds)."""
    mod = sys.modules["lena." + sp]
    if hasattr(mod, "__all__"):
        names = [n for n in mod.__all__ if isinstance(n, str)]
    else:
        names = [n for n in vars(mod) if not n.startswith("_")
                 and not isinstance(getattr(mod, n), types.ModuleType)]
    return sorted(set(names))


# ------------------------------------------------------------------------------------------------

def _fake_popen(*a, **k):
    raise FileNotFoundError(2, "No such file or directory (external programs are not run by the C20 check)")


def main(argv):
    req_path, resp_path = argv[1], argv[2]
    with open(req_path) as f:
        req = json.load(f)
    # nothing a probe does may talk to the parent's pipes
    devnull = os.open(os.devnull, os.O_RDWR)
    for fd in (0, 1):
        os.dup2(devnull, fd)
    if not req.get("keep_stderr"):
        os.dup2(devnull, 2)
    sys.stdout = open(os.devnull, "w")
    import subprocess
    subprocess.Popen = _fake_popen
    subprocess.call = subprocess.check_call = subprocess.check_output = subprocess.run = _fake_popen
    os.system = _fake_popen
    signal.signal(signal.SIGALRM, _alarm)
    resp = {"ok": True}
    try:
        os.chdir(req["workdir"])
        setup_config(req["config"], req["root"])
        resp["modules_after_config"] = lena_modules()
        results = []
        for job in req["jobs"]:
            if job["job"] == "names":
                results.append(job_names(job["subpackage"]))
            elif job["job"] == "static":
                results.append(job_static(job["files"]))
            elif job["job"] == "probes":
                results.append(job_probes(job))
            elif job["job"] == "expand_run":
                results.append(job_expand_run(job))
            elif job["job"] == "public":
                results.append(job_public(job["subpackage"]))
            else:
                raise RuntimeError("unknown job")
        resp["results"] = results
    except BaseException:  # noqa
        resp = {"ok": False, "error": traceback.format_exc()}
    tmp = resp_path + ".tmp"
    with open(tmp, "w") as f:
        json.dump(resp, f)
    os.replace(tmp, resp_path)


if __name__ == "__main__":
    main(sys.argv)
