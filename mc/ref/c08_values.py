"""C08: the shapes of the *value* an update element is called with, and the life-cycle forms of the
element object itself.

Written from the module docstring of lena.flow.functions ("A value is considered a (data, context)
pair, if it is a tuple of length 2, and the second element is a dictionary or its subclass") and the
property statement ("... leave the data and every other item untouched"). Nothing here imports lena.

Value shapes
------------
Every shape is built from one dictionary D (a context of the alphabet, holding the keys the element
addresses) and a data list x = [1]. The *pair* shapes are (data, context) pairs by the documented
rule: D is their context and must receive exactly the reference edit, the data part - which may
itself look like a pair or hold another dictionary with the same keys - must stay as it is. All
other shapes are *data without context*, whatever they look like (lists, longer or shorter tuples,
tuples whose second item is not a dictionary, other sequences and mappings, one-shot iterators): the
whole value is data, the dictionaries inside must stay as they are, an iterator must still deliver
all its items, and the context the element works on is the empty one.

Element forms
-------------
An element is a configured object; a copy of it (copy.deepcopy - what MapBins and SplitIntoBins do
with their sequences for every bin -, copy.copy, a pickle round trip) is configured in the same way,
and so is an element that has been called before: all of them must treat a value exactly as a
newly constructed element does (the reference is the same for every form).
"""
import collections
import copy
import pickle
import types

Pair = collections.namedtuple("Pair", ["data", "context"])


def plain_copy(x):
    """Structurally equal copy made of new plain dicts / lists (leaves are shared)."""
    if type(x) is dict:
        return {k: plain_copy(v) for k, v in x.items()}
    if type(x) is list:
        return [plain_copy(v) for v in x]
    return x


# name -> (is a (data, context) pair by the documented rule, builder(x, D, D2))
# D2 is a second, separate copy of the same dictionary for shapes that carry a dictionary in the data
_SHAPES = [
    # -- (data, context) pairs
    ("pair", True, lambda x, D, D2: (x, D)),
    ("pair-namedtuple", True, lambda x, D, D2: Pair(x, D)),
    ("pair-ordereddict", True, lambda x, D, D2: (x, collections.OrderedDict(D))),
    ("pair-data-none", True, lambda x, D, D2: (None, D)),
    ("pair-data-dict", True, lambda x, D, D2: (D2, D)),
    ("pair-data-pair", True, lambda x, D, D2: ((x, D2), D)),
    ("pair-data-list-x-dict", True, lambda x, D, D2: ([x, D2], D)),
    # -- data without context
    ("bare-list", False, lambda x, D, D2: x),
    ("bare-int", False, lambda x, D, D2: 5),
    ("bare-none", False, lambda x, D, D2: None),
    ("bare-str2", False, lambda x, D, D2: "ab"),
    ("bare-dict", False, lambda x, D, D2: D),
    ("list-x-dict", False, lambda x, D, D2: [x, D]),
    ("list-dict-x", False, lambda x, D, D2: [D, x]),
    ("tuple1-dict", False, lambda x, D, D2: (D,)),
    ("tuple3-x-x-dict", False, lambda x, D, D2: (x, x, D)),
    ("tuple3-x-dict-x", False, lambda x, D, D2: (x, D, x)),
    ("tuple2-dict-x", False, lambda x, D, D2: (D, x)),
    ("tuple2-x-none", False, lambda x, D, D2: (x, None)),
    ("tuple2-x-items", False, lambda x, D, D2: (x, list(D.items()))),
    ("tuple2-x-userdict", False, lambda x, D, D2: (x, collections.UserDict(D))),
    ("tuple2-x-mappingproxy", False, lambda x, D, D2: (x, types.MappingProxyType(D))),
    ("deque-x-dict", False, lambda x, D, D2: collections.deque([x, D])),
    ("userlist-x-dict", False, lambda x, D, D2: collections.UserList([x, D])),
    ("iterator-x-dict", False, lambda x, D, D2: iter([x, D])),
    ("generator-x-dict", False, lambda x, D, D2: (v for v in (x, D))),
]
SHAPES = [s[0] for s in _SHAPES]
PAIR_SHAPES = [s[0] for s in _SHAPES if s[1]]
_BY_NAME = {s[0]: s for s in _SHAPES}


def is_pair(value):
    """The documented rule of lena.flow.functions."""
    return isinstance(value, tuple) and len(value) == 2 and isinstance(value[1], dict)


def make(shape, proto):
    """-> (value, data part, context object or None) built from fresh copies of *proto*.
    For a shape without context the data part is the value itself."""
    _, pair, build = _BY_NAME[shape]
    value = build([1], plain_copy(proto), plain_copy(proto))
    assert is_pair(value) == pair, shape
    if pair:
        return value, value[0], value[1]
    return value, value, None


def plain(d):
    """A dict subclass as a plain dict (top level; the alphabet nests only plain dicts)."""
    if isinstance(d, dict) and type(d) is not dict:
        return dict(d)
    return d


def vfreeze(x, _depth=0):
    """Canonical form of a data value: types kept apart, one-shot iterators replaced by what they
    still deliver (this consumes them: call it last)."""
    if _depth > 12:
        return ("too-deep",)
    n = _depth + 1
    if isinstance(x, dict):
        return (type(x).__name__,) + tuple(sorted((repr(k), vfreeze(v, n)) for k, v in x.items()))
    if isinstance(x, (collections.UserDict, types.MappingProxyType)):
        return (type(x).__name__,) + tuple(sorted((repr(k), vfreeze(x[k], n)) for k in x))
    if isinstance(x, (list, tuple, collections.deque, collections.UserList)):
        return (type(x).__name__,) + tuple(vfreeze(v, n) for v in x)
    if isinstance(x, (str, bytes, int, float, type(None))):
        return (type(x).__name__, x)
    if hasattr(x, "__next__"):
        return ("iterator",) + tuple(vfreeze(v, n) for v in x)
    return (type(x).__name__, repr(x))


def data_intact(shape, data, proto):
    """The data part of a value of *shape* is what it was when the value was built."""
    try:
        return vfreeze(data) == vfreeze(make(shape, proto)[1])
    except Exception:
        return False


# -- element forms ------------------------------------------------------------------------------------

# a context unlike every context of the alphabet (values 5 and 'five'), for the call before
USED_FULL = {"a": {"a": 5, "b": {"a": [5], "b": "five"}, "c": 5}, "b": {"a": 5, "b": [5]}, "c": {"a": 5}}

FORMS = ["new", "deepcopy", "copy", "pickle", "used-on-empty", "used-on-full", "deepcopy-of-used",
         "deepcopy-twice"]


def _call_ignoring(el, ctx):
    try:
        el(([0], plain_copy(ctx)))
    except Exception:
        pass


def element_in_form(form, el):
    """-> the element to use, or None when this form does not exist for this element (copying or
    pickling it raises: nothing is promised about that)."""
    try:
        if form == "new":
            return el
        if form == "deepcopy":
            return copy.deepcopy(el)
        if form == "deepcopy-twice":
            return copy.deepcopy(copy.deepcopy(el))
        if form == "copy":
            return copy.copy(el)
        if form == "pickle":
            return pickle.loads(pickle.dumps(el))
        if form == "used-on-empty":
            _call_ignoring(el, {})
            return el
        if form == "used-on-full":
            _call_ignoring(el, USED_FULL)
            return el
        if form == "deepcopy-of-used":
            _call_ignoring(el, USED_FULL)
            return copy.deepcopy(el)
    except Exception:
        return None
    raise ValueError(form)
