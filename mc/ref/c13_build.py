"""Builds real lena objects from a C13 tree specification (see c13_model) and observes them."""
import copy
import json
import os

import lena.core
import lena.flow
import lena.meta
import lena.output

from mc.ref import c13_model as M

TEMPLATE = {"M": "m_{{%s}}", "W": "w_{{%s}}", "W0": "{{%s}}", "C": "c%d_{{%s}}.pkl"}
# second field of every MakeFilename: one key of the static context and one that only a value brings
M_DIRNAME = "d_{{%s}}-{{rt}}"
_M_PROBES, _U_PROBES = json.dumps(M.M_PROBES), json.dumps(M.U_PROBES)


def fields(key):
    """'{{Ka}}' for the key Ka, '{{Ka}}-{{Kb}}' for the two-field key 'Ka+Kb' (the inner braces come
    from the template)."""
    return "}}-{{".join(key.split("+"))


class Probe(object):
    """Ordinary data element: a callable that passes every value on and records its context."""

    def __init__(self):
        self.log = []

    def __call__(self, value):
        # writes its value's data under the static key Kn if a dictionary is there (in place: a value's
        # context is its own), then records the context
        if isinstance(value[1].get("Kn"), dict):
            value[1]["Kn"]["w"] = value[0]
        self.log.append(copy.deepcopy(value[1]))
        return value


class Acc(object):
    """Bare FillCompute element without any static-context method; yields nothing."""

    def __init__(self):
        self.log = []

    def fill(self, value):
        self.log.append(copy.deepcopy(value[1]))

    def compute(self):
        return
        yield  # pragma: no cover  (makes this a generator)


class OneValue(object):
    """First element of a Source: generates one value."""

    def __init__(self, uid):
        self.uid = uid

    def data(self):
        return [100 + self.uid, 200 + self.uid]

    def __call__(self):
        for d in self.data():
            yield (d, {"rt": d})


class Built(object):
    def __init__(self):
        self.objs = {}     # path -> lena object (leaves and explicit nodes)
        self.uids = {}     # path -> uid of a Cache leaf
        self.src_data = {}  # path of a Source -> the data of the values it generates
        self.root = None
        self._n = 0
        self.templates = None  # a Built of never threaded leaf objects (see templates()), or None
        self.specs = {}    # path -> leaf spec (templates only)

    def uid(self):
        self._n += 1
        return self._n


def _leaf(spec, path, b):
    kind = spec[0]
    t = b.templates
    if t is not None and t.specs.get(path) == spec:
        # a sibling made from a template: a deep copy of an element that was never put into a sequence
        el = copy.deepcopy(t.objs[path])
        if path in t.uids:
            b.uids[path] = t.uids[path]
        b.objs[path] = el
        return el
    if kind == "S":
        el = lena.meta.SetContext(spec[1], spec[2])
    elif kind == "St":
        el = lena.meta.StoreContext()
    elif kind == "U":
        el = lena.meta.UpdateContextFromStatic()
    elif kind == "M":
        el = lena.output.MakeFilename(filename=TEMPLATE["M"] % fields(spec[1]),
                                      dirname=M_DIRNAME % spec[1].split("+")[0])
    elif kind in ("W", "W0"):
        el = lena.output.Write(TEMPLATE[kind] % fields(spec[1]), verbose=False)
    elif kind == "C":
        uid = b.uid()
        b.uids[path] = uid
        el = lena.flow.Cache(TEMPLATE["C"] % (uid, fields(spec[1])))
    elif kind == "D":
        el = Probe()
    elif kind == "acc":
        el = Acc()
    else:
        raise ValueError("unknown leaf %r" % (spec,))
    b.objs[path] = el
    return el


def _item(spec, path, b):
    kind = spec[0]
    if kind in ("seq", "src"):
        kids = [_item(ch, path + (i,), b) for i, ch in enumerate(spec[1])]
        if kind == "seq":
            obj = lena.core.Sequence(*kids)
        else:
            first = OneValue(b.uid())
            b.src_data[path] = first.data()
            obj = lena.core.Source(first, *kids)
        b.objs[path] = obj
        return obj
    if kind == "split":
        branches = []
        for i, br in enumerate(spec[1]):
            bp = path + (i,)
            if br[0] == "t":
                branches.append(tuple(_item(ch, bp + (j,), b) for j, ch in enumerate(br[1])))
            elif br[0] == "bare":
                branches.append(_leaf(br[1], bp + (0,), b))
            elif br[0] == "acc":
                branches.append(_leaf(br, bp, b))
            elif br[0] == "src":
                branches.append(_item(br, bp, b))
            else:
                raise ValueError("unknown branch %r" % (br,))
        obj = lena.core.Split(branches)
        b.objs[path] = obj
        return obj
    return _leaf(spec, path, b)


def build(tree, templates=None):
    """Fresh lena objects for *tree* (children are built before what encloses them, as Python
    evaluates a nested constructor expression).  With *templates*: every leaf whose specification
    equals the template's at the same path is a copy.deepcopy of the template's element."""
    b = Built()
    b.templates = templates
    b.root = _item(tree, (), b)
    return b


def templates(tree):
    """One fresh element per leaf of *tree*, never put into any sequence: what copies are made from."""
    t = Built()
    for path, spec in M.leaves(tree):
        if spec[0] in ("acc",):
            continue
        _leaf(spec, path, t)
        t.specs[path] = spec
    return t


def _norm_cache_name(name, uid):
    pre = "c%d_" % uid
    if isinstance(name, str) and name.startswith(pre):
        return "c_" + name[len(pre):]
    return name


def observe_leaf(spec, path, b):
    """What the consumer at *path* derived from the static context it was given.
    W/C: the derived name, or None when the name still is the unformatted template.
    U: the contexts of the values of M.U_PROBES after they went through the element as one flow.
    M: for the values of M.M_PROBES, given one after the other to the one element, [file name or None,
    directory name or None, the rest of the value's context]; everything is looked at after the last
    value was processed."""
    kind = spec[0]
    el = b.objs[path]
    if kind == "St":
        return copy.deepcopy(el.context)
    if kind == "U":
        # fresh values for every observation, looked at after the whole flow was produced
        out = list(el.run(iter(list(enumerate(json.loads(_U_PROBES))))))
        return [copy.deepcopy(val[1]) for val in out]
    if kind == "M":
        # fresh values again; nobody else ever holds them, so no snapshots are needed
        results = [el(value) for value in enumerate(json.loads(_M_PROBES))]
        obs = []
        for res in results:
            if isinstance(res, tuple) and len(res) == 2 and isinstance(res[1], dict):
                ctx = dict(res[1])
                out = ctx.pop("output", None)
                if not isinstance(out, dict):
                    out = {}
                obs.append([out.get("filename"), out.get("dirname"), ctx])
            else:
                obs.append([None, None, None])
        return obs
    if kind in ("W", "W0"):
        name = el.output_directory
        return None if name == TEMPLATE[kind] % fields(spec[1]) else name
    if kind == "C":
        uid = b.uids[path]
        name = el._filename
        return None if name == TEMPLATE["C"] % (uid, fields(spec[1])) else _norm_cache_name(name, uid)
    raise ValueError(spec)


def observe_node(path, b):
    """("ok", context) or ("exc", type name, message) of node._get_context(); the returned
    dictionary is then scribbled on and the context requested again: it must not change."""
    obj = b.objs[path]
    try:
        ctx = obj._get_context()
    except Exception as e:
        return ("exc", type(e).__name__, str(e))
    snap = copy.deepcopy(ctx)
    _scribble(ctx)
    try:
        again = obj._get_context()
    except Exception as e:
        return ("exc-second", type(e).__name__, str(e))
    if again != snap:
        return ("aliased", snap, again)
    return ("ok", snap)


def _scribble(d):
    for k in list(d):
        if isinstance(d[k], dict):
            _scribble(d[k])
    d["scribble"] = 1


def run_whole(tree, b):
    """Run two values through the whole tree; returns the list of output contexts."""
    kind = tree[0]
    if kind == "src":
        flow = b.root()
    else:
        flow = b.root.run(iter([(0, {"rt": 0}), (1, {"rt": 1})]))
    # the contexts are looked at after the whole flow was produced: a value's context is its own and
    # must not change when later values are processed
    vals = list(flow)
    return [copy.deepcopy(val[1]) for val in vals]


def cleanup_files(directory):
    for name in sorted(os.listdir(directory)):
        p = os.path.join(directory, name)
        if os.path.isfile(p):
            os.remove(p)
