"""C20, law "documented-error", the PLACEMENT axis.

Where a docstring documents the exception for an invalid item of a container argument ("called
elementwise", "its items are converted", "some subarray contains not strictly increasing values"), the
documented exception is owed wherever in the container the invalid item stands. The entries of
mc/ref/c20_documented.py put one invalid item somewhere; this module enumerates, for a container
argument, EVERY place of every shape of a small family of shapes:

    which argument holds it (for a function of two like containers: the first, the second, both),
    which index (first, middle, last), which depth of nesting (0, 1, 2), which kind of container.

Nothing here knows lena: the functions build plain nested lists/tuples. Everything else of a case is
valid and identical on both sides, so that every order of evaluation has to reach the invalid place and
no other outcome (e.g. "not close" found earlier) is a legal answer.
"""

# skeletons of nested containers: a leaf is None, a container is a list of skeletons
_L = None
SHAPES = [
    [_L],
    [_L, _L, _L],
    [[_L, _L], [_L, _L]],
    [_L, [_L, _L]],
    [[_L], _L],
    [[[_L, _L]]],
    [[_L, _L, _L], [_L, _L, _L]],
]


def leaf_paths(shape, prefix=()):
    """Index paths of all leaves, in order."""
    out = []
    for i, sub in enumerate(shape):
        if sub is None:
            out.append(prefix + (i,))
        else:
            out.extend(leaf_paths(sub, prefix + (i,)))
    return out


def build(shape, leaf, container=list, prefix=()):
    """A nested *container* of the *shape* whose leaf at path p is leaf(p)."""
    return container(leaf(prefix + (i,)) if sub is None else build(sub, leaf, container, prefix + (i,))
                     for i, sub in enumerate(shape))


def placements(shapes=None):
    """[(shape number, path)] for every leaf of every shape."""
    shapes = SHAPES if shapes is None else shapes
    return [(k, p) for k, shape in enumerate(shapes) for p in leaf_paths(shape)]


def number_at(path):
    """A valid number for the leaf at *path* (distinct per place, small integers)."""
    n = 0
    for i in path:
        n = n * 4 + i + 1
    return n


def pairs_with_item(item, kinds=((list, list), (list, tuple), (tuple, list))):
    """Pairs (a, b, place) of like-shaped nested containers of equal numbers (int on one side, float on
    the other) with *item* in place of one leaf of a, of b, or of both - every leaf, every shape."""
    out = []
    for k, path in placements():
        shape = SHAPES[k]
        for ca, cb in kinds:
            for side in ("a", "b", "both"):
                la = (lambda p: item if p == path else number_at(p)) if side in ("a", "both") else number_at
                lb = (lambda p: item if p == path else float(number_at(p))) if side in ("b", "both") \
                    else (lambda p: float(number_at(p)))
                out.append((build(shape, la, ca), build(shape, lb, cb),
                            "%s/depth%d" % (side, len(path) - 1)))
    return out


def sequences_with_item(item, valid, max_len=3, containers=(list, tuple)):
    """Flat and once-nested containers of 1..max_len valid items with *item* at every index."""
    out = []
    for n in range(1, max_len + 1):
        for i in range(n):
            for c in containers:
                flat = [valid] * n
                flat[i] = item
                out.append((c(flat), "index%d/depth0" % i))
                for c2 in containers:
                    # the container that holds the item is itself item i of an outer container
                    outer = [valid] * n
                    outer[i] = c2(flat)
                    out.append((c(outer), "index%d/depth1" % i))
    return out


def edges_with_bad_step(max_len=4, dims=(1, 2, 3)):
    """Edges (1-d: a list of numbers; n-d: a list of such lists) that are strictly increasing except for
    ONE step (equal, or decreasing) - at every position of every axis."""
    out = []
    good = [0, 1, 2, 3]
    for dim in dims:
        lens = range(2, max_len + 1) if dim == 1 else (3,)
        for axis in range(dim):
            for n in lens:
                for k in range(n - 1):
                    for how in ("equal", "decreasing"):
                        bad = list(good[:n])
                        bad[k + 1] = bad[k] if how == "equal" else bad[k] - 1
                        if dim == 1:
                            edges = bad
                        else:
                            edges = [list(good[:3]) for _ in range(dim)]
                            edges[axis] = bad
                        out.append((edges, "dim%d/axis%d/step%d/%s" % (dim, axis, k, how)))
    return out
