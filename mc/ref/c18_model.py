"""C18 reference model: what a history of runs through pipelines with Cache elements may show.

Nothing here imports lena. The model is written from the statement of property C18 and the Cache
docstring:

    "The first complete run through a Cache yields the flow unaltered and stores it; every later run
     yields exactly the stored values in the original order without pulling a single value from, or
     running any element of, the upstream [...] and recompute=True or drop_cache() restore the
     first-run behaviour. If the first run stops at any point before the flow is exhausted [...] no
     later run presents the stored prefix as if it were the complete flow."

A pipeline is a list of element specs (JSON-able):

    ["f", name]      a user callable that wraps each value:  x -> (name, x)        (one to one, lazy)
    ["slice", m]     lena.flow.Slice(m)                       xs -> xs[:m]
    ["acc", name]    a user fill/compute accumulator          xs -> [list(xs)]     (one value)
    ["mut", name]    a user callable that appends its name to context["seen"] of the value in place
    ["cache", name]  lena.flow.Cache(name + ".pkl")           xs -> xs
                     (name may be a template, "{{cn}}", that the static context fills in)
    ["setctx", key, value]  lena.meta.SetContext(key, value): an element without data, it only sets
                     the static context of its sequence       xs -> xs
    ["raise", k]     (only as the last element of one run) a callable that returns its argument and
                     raises Boom on its call number k

The state of a cache is ``None`` (nothing a later run may rely on) or the list of values of the complete
flow it stored. Because the statement leaves some things open, the model is NON-DETERMINISTIC: it keeps
the set of states a conforming implementation may be in ("allowed") and narrows it by what is observed:

  * a run in which the flow through a writing cache was exhausted (consumer ran to the end, no
    exception, no early-stopping Slice behind the cache) MUST leave it holding that complete flow;
  * after any other run a writing cache may hold nothing, or the complete flow (the consumer may have
    stopped exactly after the last value), or - under recompute=True - what it held before; it may
    NEVER make a later run end normally with anything else, in particular not with a proper prefix;
  * drop_cache() leaves nothing; recompute=True makes the run ignore what the cache holds.

A run in state s is served by the last cache that holds a flow and is not being recomputed (the Cache
docstring: "If stats.pkl exists, Cache will read the data from that file and no other processing will
be done. If the stats.pkl cache doesn't exist, but the cache for histograms exists, it will be used and
no previous processing will occur"), else by the source. Served by a cache: the output is exactly what
the elements behind that cache make of the stored values, the source is not pulled and no element before
that cache is called. Served by the source: the output is what the elements make of the source's values
(cache = identity).

A SUSPENDED run is a run whose consumer stopped after k >= 1 values and kept the generator. When it is
RESUMED after other runs and consumed to its end, it is still the run it was when it started: all it
yields, before and after the pause, is exactly the complete output of a run served as it was served
when it started (by the stored flow of that moment, upstream untouched; or by its own source) - or, the
other reading of "the stored values", the complete output of a replay of what that cache holds at the
moment of resumption. Nothing else: no mixture of two stored flows, no exception. A cache it was
writing holds, once its flow is exhausted, that flow or what another run has stored there meanwhile.
"""

import copy  # noqa: E402

FALSY_POOL = [0, None, "", [], {}, False, 0.0, ()]


class Boom(Exception):
    """The injected fault."""


def flow_values(kind, n, r):
    """The n values the source of run number r produces (distinct between runs for n >= 1)."""
    if kind == "ints":
        return [100 * (r + 1) + i for i in range(n)]
    if kind in ("ctx", "shared"):
        # "shared": the same values, but the real source hands out ONE context dictionary that it
        # updates in place for every value (what is stored and replayed is each value as it passed)
        return [(100 * (r + 1) + i, {"run": r, "i": i, "nested": {"k": [i]}}) for i in range(n)]
    if kind == "falsy":
        return [FALSY_POOL[(3 * r + i) % len(FALSY_POOL)] for i in range(n)]
    raise ValueError(kind)


def canon(x):
    """Comparison form of a value or list of values (type-aware: 0, False and 0.0 differ)."""
    return repr(x)


def apply_spec(spec, xs):
    t = spec[0]
    if t == "f":
        return [(spec[1], x) for x in xs]
    if t == "slice":
        return xs[:spec[1]]
    if t == "mut":
        # a user callable that notes itself in the context of the value, IN PLACE (flows of
        # (data, context) pairs only); as a function of values: the note is appended
        out = []
        for x in xs:
            ctx = copy.deepcopy(x[1])
            ctx.setdefault("seen", []).append(spec[1])
            out.append((x[0], ctx))
        return out
    if t == "acc":
        return [list(xs)]
    if t in ("cache", "raise", "setctx"):
        return list(xs)
    raise ValueError(spec)


def apply_all(specs, xs):
    xs = list(xs)
    for s in specs:
        xs = apply_spec(s, xs)
    return xs


def cache_positions(elems):
    return [i for i, s in enumerate(elems) if s[0] == "cache"]


def run_tail(run):
    if run["kind"] == "downraise":
        return [["raise", run["k"]]]
    if run["kind"] == "downslice":
        return [["slice", run["k"]]]
    return []


def recompute_set(run, ncaches):
    if run.get("op") not in ("recompute", "dropre"):
        return set()
    w = run.get("which", "all")
    return set(range(ncaches)) if w == "all" else {w}


def drop_set(run, ncaches):
    if run.get("op") not in ("drop", "dropre"):
        return set()
    w = run.get("which", "all")
    return set(range(ncaches)) if w == "all" else {w}


def suspends(run, obs):
    """The run leaves a started, unfinished generator behind that can be resumed later."""
    return (run["kind"] == "stop" and not run.get("close", True) and run["k"] > 0
            and obs["outcome"] == "ok")


class Model(object):
    """Allowed cache states of one pipeline shape along one history."""

    def __init__(self, elems, flowkind, n, split):
        self.elems = elems
        self.cpos = cache_positions(elems)
        self.flowkind = flowkind
        self.n = n
        self.split = split          # the source feeds a Split: its pulls are not constrained
        nc = len(self.cpos)
        self.allowed = {canon((None,) * nc): (None,) * nc}
        # (interruption kind, run index, {cache index: complete flow it was writing}) newest first
        self.interrupted = []
        # run index -> (run, expectations the run agreed with when it was suspended)
        self.suspended = {}

    def copy(self):
        m = Model.__new__(Model)
        m.__dict__.update(self.__dict__)
        m.allowed = dict(self.allowed)
        m.interrupted = list(self.interrupted)
        m.suspended = dict(self.suspended)
        return m

    def key(self):
        waiting = tuple((r, tuple(sorted(set((repr(e["active"]), canon(e["full"])) for e in exps))))
                        for r, (_, exps) in sorted(self.suspended.items()))
        return tuple(sorted(self.allowed)), waiting

    def released(self):
        """The suspended runs were closed: none of them can be resumed."""
        self.suspended = {}

    # ---------------------------------------------------------------------------------------------
    def source_len(self, run):
        return 2 * self.n if run["kind"] == "long" else self.n

    def after_drop(self, run):
        """Allowed states once the run's drop_cache() calls are done."""
        ds = drop_set(run, len(self.cpos))
        out = {}
        for s in self.allowed.values():
            s2 = tuple(None if c in ds else v for c, v in enumerate(s))
            out[canon(s2)] = s2
        return out

    def active(self, s, run):
        rs = recompute_set(run, len(self.cpos))
        act = None
        for c, v in enumerate(s):
            if v is not None and c not in rs:
                act = c
        return act

    def all_served_by_cache(self, run):
        return all(self.active(s, run) is not None for s in self.after_drop(run).values())

    def expect(self, s, run, r):
        """What a run must show in state s: dict(active, pos, full, out, outcomes)."""
        pipeline = self.elems + run_tail(run)
        act = self.active(s, run)
        if act is None:
            pos = -1
            feed = flow_values(self.flowkind, self.source_len(run), r)
        else:
            pos = self.cpos[act]
            feed = list(s[act])
        full = apply_all(pipeline[pos + 1:], feed)
        kind = run["kind"]
        if kind == "stop":
            out = full[:run["k"]]
            outcomes = ["ok"] if run["k"] <= len(full) else ["short"]
        elif kind == "downraise":
            if run["k"] < len(full):
                out, outcomes = full[:run["k"]], ["exc:Boom"]
            else:
                out, outcomes = full, ["ok"]
        else:
            out, outcomes = full, ["ok"]
        return {"active": act, "pos": pos, "feed": feed, "full": full, "out": out,
                "outcomes": outcomes, "pipeline": pipeline}

    def matches(self, exp, run, obs):
        """Does the observation agree with expectation *exp*? (values, outcome, upstream untouched)"""
        act = exp["active"]
        if run["kind"] == "upraise" and (act is None or self.split):
            # a faulty source that is really read (first-run behaviour; or a Split, which reads its
            # input whatever its branch does): either the fault surfaced (then whatever was yielded
            # before is a prefix of the healthy output) or it was never reached (an early-stopping
            # element in front of it) and the run is a healthy one.
            if act is not None and self.touched(exp, obs):
                return False
            if obs["outcome"] == "exc:Boom":
                got = obs["out"]
                return canon(got) == canon(exp["full"][:len(got)])
            return obs["outcome"] == "ok" and canon(obs["out"]) == canon(exp["full"])
        if obs["outcome"] not in exp["outcomes"]:
            return False
        if canon(obs["out"]) != canon(exp["out"]):
            return False
        if act is not None and self.touched(exp, obs):
            return False
        return True

    def touched(self, exp, obs):
        """Kinds of upstream things a cache-served run touched although it must not."""
        kinds = []
        if not self.split and obs["pulls"] > 0:
            kinds.append("source")
        for i in range(exp["pos"]):
            spec = self.elems[i]
            if spec[0] in ("f", "acc") and obs["calls"].get(spec[1], 0) > 0:
                k = "callable" if spec[0] == "f" else "accumulator"
                if k not in kinds:
                    kinds.append(k)
        return kinds

    def successors(self, s, exp, run, obs):
        """States allowed after this run, given it started in s and showed obs."""
        act = exp["active"]
        pipeline = exp["pipeline"]
        consumer_exhausted = (obs["outcome"] == "ok" and run["kind"] in ("complete", "long", "upraise"))
        options = []
        writing = {}
        clean_all = True
        for c, v in enumerate(s):
            if act is not None and c <= act:
                options.append([v])
                continue
            if act is None:
                start = 0
            else:
                start = exp["pos"] + 1
            full_c = apply_all(pipeline[start:self.cpos[c]], exp["feed"])
            writing[c] = full_c
            slice_behind = any(sp[0] == "slice" for sp in pipeline[self.cpos[c] + 1:])
            if consumer_exhausted and not slice_behind:
                options.append([full_c])
            else:
                clean_all = False
                opts = [None, full_c]
                if v is not None:
                    opts.append(v)
                options.append(opts)
        states = [()]
        for opts in options:
            states = [st + (o,) for st in states for o in opts]
        return states, writing, clean_all

    def step(self, run, r, obs):
        """Judge run number r. Returns None (fine; the allowed set is narrowed and advanced) or a
        dict(cause=..., expected=...) describing the violation (the model is then dead)."""
        before = self.allowed
        cur = self.after_drop(run)
        new = {}
        interrupted_writing = None
        exps = []
        agreed = []
        for s in cur.values():
            exp = self.expect(s, run, r)
            exps.append((s, exp))
            if not self.matches(exp, run, obs):
                continue
            agreed.append(exp)
            states, writing, clean = self.successors(s, exp, run, obs)
            for st in states:
                new[canon(st)] = st
            if writing and not clean:
                interrupted_writing = writing
        if new:
            self.allowed = new
            if interrupted_writing is not None:
                kind = run["kind"]
                if kind == "stop":
                    kind = "stop-close" if run.get("close", True) else "stop-abandon"
                self.interrupted.insert(0, (kind, r, interrupted_writing))
            if suspends(run, obs):
                self.suspended[r] = (dict(run), agreed)
            return None
        return self.diagnose(before, cur, exps, run, r, obs)

    # ---------------------------------------------------------------------------------------------
    def step_resume(self, r0, obs):
        """Judge the suspended run number r0, resumed now and consumed to its end; *obs* is the whole
        run (the values received before and after the pause, the pulls and calls of both parts).
        Returns None or a violation like step()."""
        run0, exps0 = self.suspended.pop(r0)
        whole = dict(run0)
        whole["kind"] = "complete"
        cands = list(exps0)
        for s in self.allowed.values():
            # the other reading: a replay of what the cache holds now
            e = self.expect(s, whole, r0)
            if e["active"] is not None:
                cands.append(e)
        new = {}
        for e in cands:
            if obs["outcome"] != "ok" or canon(obs["out"]) != canon(e["full"]):
                continue
            if e["active"] is not None and self.touched(e, obs):
                continue
            for s in self.allowed.values():
                for st in self.after_completion(s, e):
                    new[canon(st)] = st
        if new:
            self.allowed = new
            return None
        expected = [{"served_by": ("source" if e["active"] is None else "cache %d" % e["active"]),
                     "values": canon(e["full"]), "outcome": ["ok"],
                     "upstream": "untouched" if e["active"] is not None else "free"}
                    for e in cands]
        served = sorted(set("source" if e["active"] is None else "cache" for e in exps0))
        symptom = obs["outcome"]
        if symptom == "ok":
            symptom = "wrong values"
            for e in cands:
                if e["active"] is not None and canon(obs["out"]) == canon(e["full"]):
                    symptom = "upstream touched: " + "+".join(self.touched(e, obs))
        return {"cause": {"law": "resumed-run-yields-exactly-its-flow", "served_by": "/".join(served),
                          "symptom": symptom},
                "expected": expected,
                "note": "run %d was suspended after %d values and resumed after the later runs"
                        % (r0, run0["k"])}

    def after_completion(self, s, e):
        """States allowed once a resumed run with expectation e has come to its end in state s."""
        act = e["active"]
        pipeline = e["pipeline"]
        options = []
        for c, v in enumerate(s):
            if act is not None and c <= act:
                options.append([v])
                continue
            start = 0 if act is None else e["pos"] + 1
            full_c = apply_all(pipeline[start:self.cpos[c]], e["feed"])
            opts = [full_c, v]
            if any(sp[0] == "slice" for sp in pipeline[self.cpos[c] + 1:]):
                opts.append(None)       # its flow was not exhausted
            options.append(opts)
        states = [()]
        for opts in options:
            states = [st + (o,) for st in states for o in opts]
        return states

    # ---------------------------------------------------------------------------------------------
    def diagnose(self, before, cur, exps, run, r, obs):
        expected = [{"served_by": ("source" if e["active"] is None else "cache %d" % e["active"]),
                     "values": canon(e["out"]), "outcome": e["outcomes"],
                     "upstream": "untouched" if e["active"] is not None else "free"}
                    for _, e in exps]
        nc = len(self.cpos)
        def shows(e, ignore_touch=False):
            if obs["outcome"] not in e["outcomes"] or canon(obs["out"]) != canon(e["out"]):
                return False
            return ignore_touch or not self.touched(e, obs)

        # 1. exactly the values of a legitimate replay, but the upstream was touched
        for s, e in exps:
            if e["active"] is not None and shows(e, ignore_touch=True):
                return {"cause": {"law": "later-run-leaves-upstream-untouched",
                                  "touched": "+".join(self.touched(e, obs))},
                        "expected": expected}
        # 2. the stored flow more than once
        for s, e in exps:
            if e["active"] is not None and obs["outcome"] == "ok" and e["out"]:
                m, rest = divmod(len(obs["out"]), len(e["out"]))
                if m >= 2 and rest == 0 and canon(obs["out"]) == canon(e["out"] * m):
                    return {"cause": {"law": "later-run-yields-exactly-the-stored-values",
                                      "symptom": "stored flow yielded once per block"},
                            "expected": expected}
        # 3. behaves exactly like the replay of a proper prefix an interrupted run left behind
        #    (whether or not the upstream was touched on top of that)
        for kind, rj, writing in self.interrupted:
            for c, full_c in sorted(writing.items()):
                for plen in range(len(full_c)):
                    for s in cur.values():
                        hyp = tuple(full_c[:plen] if i == c else v for i, v in enumerate(s))
                        e = self.expect(hyp, run, r)
                        if e["active"] == c and shows(e, ignore_touch=True):
                            return {"cause": {"law": "no-truncated-replay", "interruption": kind},
                                    "expected": expected,
                                    "note": "run %d behaves as the replay of the first %d of %d values "
                                            "that the interrupted run %d was storing in cache %d"
                                            % (r, plen, len(full_c), rj, c)}
        # 3b. a cache-served run in which the faulty source was reached
        if run["kind"] == "upraise" and obs["outcome"] == "exc:Boom" and not self.split \
                and all(e["active"] is not None for _, e in exps):
            return {"cause": {"law": "later-run-leaves-upstream-untouched", "touched": "source (it raised)"},
                    "expected": expected}
        # 4. recompute / drop not honoured: behaves as if the operation had not happened
        if run.get("op") in ("recompute", "drop", "dropre"):
            plain = dict(run)
            plain["op"] = "none"
            for s in before.values():
                e = self.expect(s, plain, r)
                if e["active"] is not None and shows(e):
                    law = ("recompute-restores-first-run" if run["op"] == "recompute"
                           else "drop-cache-restores-first-run")
                    return {"cause": {"law": law}, "expected": expected}
        # 5. anything else
        if all(e["active"] is None for _, e in exps):
            law = "first-run-yields-flow-unaltered"
        elif all(e["active"] is not None for _, e in exps):
            law = "later-run-yields-exactly-the-stored-values"
        else:
            law = "run-yields-flow-or-stored-values"
        symptom = obs["outcome"]
        if symptom == "ok":
            symptom = "wrong values"
        return {"cause": {"law": law, "symptom": symptom}, "expected": expected}
