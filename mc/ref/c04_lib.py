"""Private helpers of the C04 check (context non-interference).

Nothing of lena's control flow is copied here. The file holds
  * a canonical, address-free, hashable form of values and of element states (`canon`),
  * the id-graph of mutable containers reachable from a value (`container_ids`),
  * the *poison* used by the hostile consumer (mutates every mutable container it can reach),
  * Part A: factories for branches (always fresh objects) of every sequence type Split documents
    (Sequence, FillComputeSeq, FillRequestSeq and Source - a branch that does not read the flow), the
    observing `Tap`, the drivers that run a Split / Zip by run, fill+compute or fill+request,
  * Part B: factories for the framework accumulators and their wrappers and the event interpreter.
"""
import copy
import decimal
import types

import lena.context
import lena.core
import lena.flow
import lena.math
import lena.output
import lena.structures
import lena.variables


# ---------------------------------------------------------------------------------------------------
# canonical form, identity graph, poison

def canon(x, _path=None):
    """Deterministic hashable form of *x*: no memory addresses, dictionaries sorted by key repr,
    objects as (type name, canonical vars), functions and methods by name only."""
    if x is None or isinstance(x, (bool, int, str, bytes)):
        return x
    if isinstance(x, float):
        return ("f", repr(x))
    if isinstance(x, decimal.Decimal):
        return ("D", str(x))
    if _path is None:
        _path = ()
    if id(x) in _path:
        return ("cycle",)
    if len(_path) > 60:
        return ("deep",)
    path = _path + (id(x),)
    if isinstance(x, dict):
        return ("d",) + tuple(sorted(((repr(k), canon(v, path)) for k, v in x.items())))
    if isinstance(x, list):
        return ("l",) + tuple(canon(v, path) for v in x)
    if isinstance(x, tuple):
        return ("t", type(x).__name__) + tuple(canon(v, path) for v in x)
    if isinstance(x, (set, frozenset)):
        return ("s",) + tuple(sorted(repr(canon(v, path)) for v in x))
    if isinstance(x, types.MethodType):
        return ("meth", getattr(x, "__name__", "?"))
    if isinstance(x, (types.FunctionType, types.BuiltinFunctionType, type)):
        return ("fn", getattr(x, "__qualname__", getattr(x, "__name__", "?")))
    d = getattr(x, "__dict__", None)
    if isinstance(d, dict):
        return ("o", type(x).__name__, canon(d, path))
    return ("x", type(x).__name__)


def container_ids(x, acc=None, _depth=0):
    """{id: object} of every dict and list reachable from *x* through dicts, lists and tuples."""
    if acc is None:
        acc = {}
    if _depth > 60:
        return acc
    if isinstance(x, dict):
        if id(x) not in acc:
            acc[id(x)] = x
            for v in x.values():
                container_ids(v, acc, _depth + 1)
    elif isinstance(x, list):
        if id(x) not in acc:
            acc[id(x)] = x
            for v in x:
                container_ids(v, acc, _depth + 1)
    elif isinstance(x, tuple):
        for v in x:
            container_ids(v, acc, _depth + 1)
    elif type(x).__name__ == "Box":          # user-object data of the flows (defined below)
        if id(x) not in acc:
            acc[id(x)] = x
            container_ids(x.items, acc, _depth + 1)
    return acc


def poison(x, seen=None, _depth=0):
    """In-place update of every dict and list reachable from *x* (each container once per call):
    what a downstream element that edits its input in place would do. Returns the number of
    containers changed."""
    if seen is None:
        seen = set()
    if _depth > 60:
        return 0
    n = 0
    if isinstance(x, dict):
        if id(x) in seen:
            return 0
        seen.add(id(x))
        for v in list(x.values()):
            n += poison(v, seen, _depth + 1)
        x["__poison__"] = x.get("__poison__", 0) + 1
        n += 1
    elif isinstance(x, list):
        if id(x) in seen:
            return 0
        seen.add(id(x))
        for v in list(x):
            n += poison(v, seen, _depth + 1)
        x.append("__poison__")
        n += 1
    elif isinstance(x, tuple):
        for v in x:
            n += poison(v, seen, _depth + 1)
    return n


def is_pair(value):
    return isinstance(value, tuple) and len(value) == 2 and isinstance(value[1], dict)


def context_of(value):
    """The context object of a yielded value, or None when the value carries none."""
    return value[1] if is_pair(value) else None


# ---------------------------------------------------------------------------------------------------
# Part A: branches

class Box(object):
    """Data that is an ordinary user object: mutable, and hashable like every object (by identity)."""

    def __init__(self, items):
        self.items = items

    def append(self, x):
        self.items.append(x)

    def __add__(self, other):
        return self.items + other


FLOWS = ("distinct", "same", "ctxobj")


def make_flow(n, data="list", flow="distinct"):
    """n values; each has list data (or, data="obj", a user object holding the list) and a private
    nested context (no aliasing between values). flow="distinct": the values differ from each other in
    data and context; flow="same": all values are EQUAL (data and context) and still every one is made
    of its own objects - equality is not aliasing. flow="ctxobj": as "distinct", but every context is
    a lena.context.Context (the documented dict subclass that the element Context() puts into the flow
    in place of a plain dict; it has its own attributes and may have its own copy protocol) whose nested
    items are ordinary dicts and lists."""
    out = []
    for j in range(n):
        m = j if flow != "same" else 0
        c = {"id": m, "tag": "t", "nest": {"k": [m]}, "output": {"prefix": "p"}}
        if flow == "ctxobj":
            c = lena.context.Context(c)
        out.append(([m] if data == "list" else Box([m]), c))
    return out


class Usr(object):
    """A user element that edits its input in place: appends to the data list, counts in a context
    key, appends to a list nested in the context. Applied twice it gives a different result."""

    def __call__(self, value):
        data, context = value
        data.append("u")
        context["user"] = context.get("user", 0) + 1
        context.setdefault("nest", {}).setdefault("k", []).append("u")
        return value


class Gen(object):
    """First element of a Source branch: generates its own flow, SRC_N values of the shape make_flow
    gives (list data, private nested context), made anew at every call; it never sees the Split's flow."""

    def __call__(self):
        for j in range(SRC_N):
            m = 100 + j
            yield ([m], {"id": m, "tag": "s", "nest": {"k": [m]}, "output": {"prefix": "p"}})


SRC_N = 2


class MultiTap(object):
    """The observers of a branch that is a bare nested container: one Tap at the end of each of its
    sequences. snaps / objs: those of the sequences, sequence by sequence."""

    def __init__(self, subs):
        self.subs = subs

    @property
    def snaps(self):
        return [("seq", i, s) for i, t in enumerate(self.subs) for s in t.snaps]

    @property
    def objs(self):
        return [o for t in self.subs for o in t.objs]


class Tap(object):
    """Observer at the end of a branch: records a canonical snapshot of every value that leaves the
    branch (at that moment) and the object itself; passes the object on unchanged."""

    def __init__(self):
        self.snaps = []
        self.objs = []

    def run(self, flow):
        for val in flow:
            self.snaps.append(canon(val))
            self.objs.append(val)
            yield val


def _getter_v(data):
    return data + ["v"]


PRE_TOKENS = ("none", "usr", "var", "upd", "mkp", "mkf", "cnt", "updv", "usrsl", "varsl")
TERM_TOKENS = ("seq", "store", "last", "fr", "storei")
# "src": the branch is a Source (generator Gen, then the mutators as run elements): the fourth sequence
# type a Split accepts. It does not read the flow; Split.run calls it once and drops it from its list of
# active branches. Kept out of TERM_TOKENS (the product mutators x terminals): SRC_PRE lists its mutators.
SRC_TOKEN = "src"
# "zipn": the branch is a bare Zip (not wrapped into a tuple or a FillComputeSeq: the container gets the
# Zip object itself) of NEST_N FillCompute sequences, each made of its own instances of the branch's
# mutators, StoreFilled and a Tap: a container nested in a container. Like the Source it is kept out of
# the product mutators x terminals: NEST_PRE lists its mutators.
NEST_TOKEN = "zipn"
NEST_PRE = ("none", "usr", "var", "cnt")
NEST_N = 2
SRC_PRE = ("none", "usr", "cnt")
TERM_TYPE = {"seq": "sequence", "store": "fill_compute", "storei": "fill_compute",
             "last": "fill_compute", "fr": "fill_request", "src": "source", "zipn": "fill_compute"}


def _pre(token, term):
    if token == "none":
        return []
    if token == "usr":
        return [Usr()]
    if token == "var":
        # updates context.variable in place; a second application adds "compose"
        return [lena.variables.Variable("v", _getter_v, type="T")]
    if token == "upd":
        # reads the key it writes: not idempotent
        return [lena.context.UpdateContext("tag", "{{tag}}x")]
    if token == "updv":
        # copies a list that other mutators append to
        return [lena.context.UpdateContext("nest.copy", "{{nest.k}}", value=True)]
    if token == "mkp":
        # prepends to context.output.prefix: not idempotent
        return [lena.output.MakeFilename(prefix="q_")]
    if token == "mkf":
        # consumes (deletes) output.prefix, reads id and tag
        return [lena.output.MakeFilename("f_{{id}}_{{tag}}")]
    if token in ("usrsl", "varsl"):
        # a mutator followed by Slice(1): a filled branch edits the first value of a block in place and
        # signals LenaStopFill at the second one, i.e. it stops in the middle of a buffer
        return _pre(token[:3], term) + [lena.flow.Slice(1)]
    if token == "cnt":
        # Count as an in-place mutator of passing values (not as the accumulator of the branch)
        if term in ("seq", "src"):
            return [lena.core.Run(lena.flow.Count("c"))]
        return [lena.core.FillInto(lena.flow.Count("c"))]
    raise ValueError(token)


def make_branch(kind, explicit_frs):
    """*kind* = [pre tokens ..., terminal token]. Returns (branch argument for Split/Zip, tap)."""
    term = kind[-1]
    els = []
    for tok in kind[:-1]:
        els.extend(_pre(tok, term))
    tap = Tap()
    if term == "zipn":
        subs, seqs = [], []
        for _ in range(NEST_N):
            sub = Tap()
            sels = []
            for tok in kind[:-1]:
                sels.extend(_pre(tok, term))      # own instances for every sequence
            seqs.append(tuple(sels + [lena.flow.StoreFilled(), sub]))
            subs.append(sub)
        return lena.flow.Zip(seqs), MultiTap(subs)
    if term == "src":
        # a Source must be given explicitly (a tuple is never taken for one)
        return lena.core.Source(Gen(), *(els + [tap])), tap
    if term == "seq":
        pass
    elif term == "store":
        els.append(lena.flow.StoreFilled())
    elif term == "storei":
        els.append(lena.flow.StoreFilled(yield_as_a_group=False))
    elif term == "last":
        # Count used as a FillCompute element: keeps the context of the last filled value,
        # updates it in place in compute() and yields a copy
        els.append(lena.flow.Count("n"))
    elif term == "fr":
        els.append(lena.core.FillRequest(lena.flow.StoreFilled(), bufsize=1, reset=True,
                                         buffer_input=True))
    else:
        raise ValueError(term)
    els.append(tap)
    if term == "fr" and explicit_frs:
        # an explicit FillRequestSeq: the container does not have to wrap the tuple itself
        return lena.core.FillRequestSeq(*els, bufsize=1, reset=False, buffer_input=True), tap
    return tuple(els), tap


def kinds_type(kinds):
    """Common sequence type of a branch list or None."""
    ts = set(TERM_TYPE[k[-1]] for k in kinds)
    return ts.pop() if len(ts) == 1 else None


MODES = ("run", "fill_compute", "fill_request_end", "fill_request_each")


def mode_applicable(container, mode, kinds):
    t = kinds_type(kinds)
    if container.startswith("zip") and mode == "run":
        return False
    if mode == "run":
        return True
    if mode == "fill_compute":
        return t == "fill_compute"
    return t == "fill_request"


class Outcome(object):
    """What one drive() observed."""


def units(objs):
    """The flow values among what left a branch: an output that is a list (the group StoreFilled
    yields) counts by its members, every other output as one value."""
    out = []
    for o in objs:
        if isinstance(o, list):
            out.extend(o)
        else:
            out.append(o)
    return out


def alias_pattern(objs):
    """Which of the values that left one branch share a dict/list/user object with an EARLIER value of
    the same branch: sorted tuple of (index of the first value holding the object, index of the later
    value). () = no two values of the branch have a mutable object in common."""
    first = {}
    pairs = set()
    for k, u in enumerate(units(objs)):
        for i in container_ids(u):
            f = first.setdefault(i, k)
            if f != k:
                pairs.add((f, k))
    return tuple(sorted(pairs))


ORIGINS = ("fresh", "copy")


def drive(container, kinds, bufsize, n, mode, hostile, want_mutated=False, flow="distinct",
          origin="fresh"):
    """Build a fresh Split/Zip from *kinds*, a fresh flow of *n* values (see make_flow for *flow*), drive
    it in *mode*; the consumer poisons every value it receives before asking for the next one when
    *hostile*.

    origin="copy": the container just built (the *template*) is deep-copied before it has seen any
    value - what SplitIntoBins does with its sequence for every bin, MapBins for every cell, and what a
    user may do with any element. Template and copy are then both driven, each over its own fresh flow
    (equal flows), taking turns value by value; the copy gives its results first. out.taps / out.objs
    are those of the copy, out.taps_t / out.objs_t those of the template."""
    out = Outcome()
    out.taps, out.objs, out.received = [], [], []
    out.taps_t = out.objs_t = None
    out.exc = out.construct_exc = None
    out.mutated_input = False
    explicit = container.startswith("zip") or (bufsize is None)
    try:
        branches, taps = [], []
        for kind in kinds:
            b, t = make_branch(kind, explicit)
            branches.append(b)
            taps.append(t)
        if container == "split":
            el = lena.core.Split(branches, bufsize=bufsize)      # copy_buf=True is the default
        else:
            el = lena.flow.Zip(branches)
    except Exception as e:      # construction problems are not C04's business
        out.construct_exc = type(e).__name__
        return out
    data = "obj" if container == "zip-obj" else "list"
    machines = [(el, taps, make_flow(n, data, flow))]
    before = canon(machines[0][2]) if want_mutated else None

    def receive(val):
        out.received.append(val)
        if hostile:
            poison(val)

    def consume(gen):
        for val in gen:
            receive(val)

    try:
        if origin == "copy":
            el2, taps2 = copy.deepcopy((el, taps))
            machines.append((el2, taps2, make_flow(n, data, flow)))
        elif origin != "fresh":
            raise ValueError(origin)
        givers = machines[::-1]
        if mode == "run":
            live = [m.run(iter(f)) for m, _, f in machines]
            while live:
                for gen in list(live):
                    try:
                        val = next(gen)
                    except StopIteration:
                        live.remove(gen)
                        continue
                    receive(val)
        elif mode == "fill_compute":
            for j in range(n):
                for m, _, f in machines:
                    m.fill(f[j])
            for m, _, _ in givers:
                consume(m.compute())
        elif mode == "fill_request_end":
            for j in range(n):
                for m, _, f in machines:
                    m.fill(f[j])
            for m, _, _ in givers:
                consume(m.request())
        elif mode == "fill_request_each":
            for j in range(n):
                for m, _, f in machines:
                    m.fill(f[j])
                for m, _, _ in givers:
                    consume(m.request())
        else:
            raise ValueError(mode)
    except Exception as e:
        out.exc = type(e).__name__
    taps = machines[-1][1]
    out.taps = [tuple(t.snaps) for t in taps]
    out.objs = [t.objs for t in taps]
    if len(machines) == 2:
        out.taps_t = [tuple(t.snaps) for t in machines[0][1]]
        out.objs_t = [t.objs for t in machines[0][1]]
    out.alias = [alias_pattern(objs) for objs in out.objs]
    out.mutated_input = want_mutated and canon(machines[0][2]) != before
    return out


# ---------------------------------------------------------------------------------------------------
# Part B: accumulators, wrappers, events

def _ident(x):
    return x


CTXS = ("dict", "Context")


def _ctx(j, ctx="dict"):
    c = {"id": j, "nest": {"k": [j]}, "lst": [j]}
    if ctx == "Context":
        # the documented dict subclass; its nested items are ordinary dicts and lists
        c = lena.context.Context(c)
    return c


ACCS = ("Sum", "DSum", "Mean", "MeanSumSeq", "VarianceMeanCount", "VarianceMeanCountCorr",
        "Vectorize", "Count", "Histogram", "SplitIntoBins", "Graph", "SplitIntoBins2",
        "MeanSumSeq2", "Vectorize2")
# The configurations whose name ends in 2 yield SEVERAL values at one compute(): every accumulator whose
# docstring allows it (Mean: "if the sum_seq yields several values, they are all yielded"; Vectorize:
# the results of the components "grouped together", as many as the longest component yields;
# SplitIntoBins: one histogram per result of the per-cell analysis).

ACC_CLASS = {"MeanSumSeq": "Mean", "VarianceMeanCountCorr": "VarianceMeanCount",
             "SplitIntoBins2": "SplitIntoBins", "MeanSumSeq2": "Mean", "Vectorize2": "Vectorize"}


def make_acc(tok):
    if tok == "Sum":
        return lena.math.Sum()
    if tok == "DSum":
        return lena.math.DSum()
    if tok == "Mean":
        return lena.math.Mean()
    if tok == "MeanSumSeq":
        return lena.math.Mean(sum_seq=lena.math.Sum())
    if tok == "VarianceMeanCount":
        return lena.math.VarianceMeanCount(corrected=False)
    if tok == "VarianceMeanCountCorr":
        return lena.math.VarianceMeanCount()
    if tok == "Vectorize":
        return lena.math.Vectorize(lena.math.Sum(), dim=2)
    if tok == "Count":
        return lena.flow.Count()
    if tok == "Histogram":
        return lena.structures.Histogram([0, 2, 4, 100])
    if tok == "SplitIntoBins":
        return lena.structures.SplitIntoBins(lena.math.Sum(), lena.variables.Variable("x", _ident),
                                             [0, 2, 100])
    if tok == "SplitIntoBins2":
        # a per-cell analysis with two results: one compute() yields two (histogram, context) values
        return lena.structures.SplitIntoBins(lena.core.Split([lena.math.Sum(), lena.flow.Count()]),
                                             lena.variables.Variable("x", _ident), [0, 2, 100])
    if tok == "Graph":
        return lena.structures.Graph()
    if tok == "MeanSumSeq2":
        # a sum sequence with two results (the sum and the count): one compute() yields two values
        return lena.math.Mean(sum_seq=lena.core.Split([lena.math.Sum(), lena.flow.Count()]))
    if tok == "Vectorize2":
        # every component yields one result per filled value: one compute() yields as many values
        return lena.math.Vectorize(lena.flow.StoreFilled(yield_as_a_group=False), dim=2)
    raise ValueError(tok)


def make_value(tok, j, ctx="dict"):
    """The j-th filled value for accumulator *tok*: fresh data, fresh private nested context (a plain
    dict or, ctx="Context", a lena.context.Context)."""
    if tok in ("Vectorize", "Vectorize2"):
        data = (j + 1, j + 2)
    elif tok == "Graph":
        data = (j + 1, (j + 1) * 2)
    else:
        data = j + 1
    return (data, _ctx(j, ctx))


WRAPS = ("bare", "FillComputeSeq", "FillRequest", "FillRequestReset", "Split", "Zip")


class Machine(object):
    """acc behind a wrapper: .fill(value) and .result() (list of everything compute/request yields)."""

    def __init__(self, tok, wrap):
        if wrap == "bare":
            self.el = make_acc(tok)
            self._res = self.el.compute
        elif wrap == "FillComputeSeq":
            self.el = lena.core.FillComputeSeq(make_acc(tok))
            self._res = self.el.compute
        elif wrap == "FillRequest":
            self.el = lena.core.FillRequest(make_acc(tok), bufsize=1, reset=False, buffer_input=True)
            self._res = self.el.request
        elif wrap == "FillRequestReset":
            self.el = lena.core.FillRequest(make_acc(tok), bufsize=1, reset=True, buffer_input=True)
            self._res = self.el.request
        elif wrap == "Split":
            self.el = lena.core.Split([make_acc(tok), make_acc(tok)])
            self._res = self.el.compute
        elif wrap == "Zip":
            self.el = lena.flow.Zip([make_acc(tok), make_acc(tok)])
            self._res = self.el.compute
        else:
            raise ValueError(wrap)

    def fill(self, value):
        self.el.fill(value)

    def result(self):
        return list(self._res())


def yielded_contexts(tok, value):
    """The context objects a yielded value carries: its own context and, for SplitIntoBins, the
    contexts the per-cell accumulators yielded into the bins of the histogram."""
    out = []
    c = context_of(value)
    if c is not None:
        out.append(c)
    data = value[0] if is_pair(value) else value
    if isinstance(data, lena.structures.histogram):
        stack = [data.bins]
        while stack:
            b = stack.pop()
            if isinstance(b, list):
                stack.extend(reversed(b))
            else:
                cc = context_of(b)
                if cc is not None:
                    out.append(cc)
    elif isinstance(data, tuple) and not hasattr(data, "_fields"):
        # Zip: a tuple of the branches' data; contexts were merged into the value's own context
        pass
    return out
