"""C06: the container axis of edge arrays, and the operations that may stand between two fills.

Nothing here looks at lena's code; both lists are written from the docstrings.

1. Containers.  The statement speaks of edge arrays, lena's docstrings of "a sequence of
   one-dimensional arrays" (histogram) and of "an array of N-1 dimensional arrays (lists or tuples) of
   numbers" (get_bin_on_value): the numbers that make an edge array may stand in a list or in a tuple,
   or in an instance of a subclass of either, and so may the axes of a multidimensional histogram.
   The cells are the same whatever the container.  A *form* is written "outer:inner,inner,..." for
   a multidimensional histogram (one inner kind per axis) and "kind" for the flat edge list of a
   one-dimensional one; kinds are list, tuple, listsub, tuplesub.  Other sequences (range,
   array.array, deque) are not enumerated: the docstrings name lists and tuples only.

2. Operations between fills.  A histogram that is being filled may be read, copied, rescaled and
   added in between; the statement quantifies over every fill, so a fill after any of them still
   adds its weight to exactly the right cell of the histogram as it then is.  OPS lists every
   public method of lena.structures.histogram that is not fill, plus the copies Python offers for
   any object; ELEMENT_OPS those of the Histogram element.
"""
import itertools


class ListSub(list):
    """A list type that is not list itself."""
    __slots__ = ()


class TupleSub(tuple):
    """A tuple type that is not tuple itself."""
    __slots__ = ()


KINDS = {"list": list, "tuple": tuple, "listsub": ListSub, "tuplesub": TupleSub}
KIND_NAMES = ("list", "tuple", "listsub", "tuplesub")


def forms_1d():
    """Every container kind of a flat edge list except the plain list (the base case)."""
    return ["tuple", "listsub", "tuplesub"]


def forms_md(dim):
    """Every outer kind x (every assignment of list/tuple to the axes, all axes listsub, all axes
    tuplesub), without the all-lists base form; sorted by construction."""
    inner = [list(c) for c in itertools.product(("list", "tuple"), repeat=dim)]
    inner += [["listsub"] * dim, ["tuplesub"] * dim]
    out = []
    for outer in KIND_NAMES:
        for kinds in inner:
            name = outer + ":" + ",".join(kinds)
            if outer == "list" and all(k == "list" for k in kinds):
                continue
            out.append(name)
    return out


def apply_form(edges, form):
    """A fresh copy of *edges* (flat list of numbers, or list of such lists) in the containers
    named by *form*; None means plain lists."""
    nested = isinstance(edges[0], (list, tuple))
    if form is None:
        return [list(a) for a in edges] if nested else list(edges)
    if ":" in form:
        outer, inner = form.split(":")
        kinds = inner.split(",")
        if not nested or len(kinds) != len(edges):
            raise ValueError("form %r does not fit the edges" % (form,))
        return KINDS[outer](KINDS[k](a) for k, a in zip(kinds, edges))
    if nested:
        raise ValueError("form %r does not fit the edges" % (form,))
    return KINDS[form](edges)


def form_label(form):
    """Coarse label of a form for causes: the container kinds in it that are not plain lists."""
    if form is None:
        return None
    kinds = set(form.replace(":", ",").split(","))
    kinds.discard("list")
    return "/".join(sorted(kinds))


# ---- operations between fills ------------------------------------------------------------------------
# name -> what it does; the check executes them on the real object, the results of the operations
# themselves belong to other properties (C12: scaling and arithmetic, C09: reset) and are not judged
OPS = [
    "read",              # repr, ==, get_nevents (both ways), _update_context: must not matter at all
    "scale",             # scale(): compute and store the integral
    "rescale",           # scale(3): new bins, rescaled to the integral 3
    "set_nevents",       # set_nevents(8): new bins, rescaled to 8 entries
    "set_nevents_all",   # set_nevents(8, include_out_of_range=True)
    "add",               # continue with h.add(other), other an index-coded histogram of the same edges
    "deepcopy",          # continue with copy.deepcopy(h); the original must not see the later fills
    "pickle",            # continue with pickle.loads(pickle.dumps(h))
]
ELEMENT_OPS = [
    "compute",           # list(el.compute()): take the result, go on filling
    "reset",             # el.reset()
    "deepcopy",          # continue with copy.deepcopy(el); the original must not see the later fills
]


def history_patterns(max_len):
    """Every sequence of 'f' (a fill) and 'o' (an operation) of length 2..max_len that contains an
    operation and ends with a fill (sequences of fills alone are the fill-sequence law), shortest
    first."""
    out = []
    for n in range(2, max_len + 1):
        for p in itertools.product("fo", repeat=n - 1):
            if "o" in p:
                out.append("".join(p) + "f")
    return out
