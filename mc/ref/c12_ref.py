"""Reference models and alphabets of the C12 check (histogram / graph arithmetic, scaling, conversions).

Written from the property statement and the docstrings of lena.structures / lena.output, not from the
control flow of the implementation: cells are enumerated with itertools.product (first axis slowest),
the integral is an exact Fraction sum of content x product of bin widths, a CSV block is parsed with
str.split and float, the rows that duplicate the last edge carry the content of the nearest (clipped)
cell, an error field belongs to the one coordinate whose name follows "error_".
"""
import itertools
from decimal import Decimal
from fractions import Fraction

from mc.ref import c06c12_ref as R

REL = 1e-9          # "up to rounding" (DESIGN.md R4)
CSV_ABS = 5e-7      # "{:f}" prints six decimals


# ---- numbers ------------------------------------------------------------------------------------------
def is_num(x):
    return isinstance(x, (int, float)) and not isinstance(x, bool)


def close(a, b, hint=0.0, rel=REL):
    """|a - b| <= rel * max(|a|, |b|, hint); *hint* is the magnitude of the terms that were summed
    (so that a result obtained by cancellation is not judged more strictly than its summands allow)."""
    if not (is_num(a) and is_num(b)):
        return False
    if a == b:
        return True
    return abs(a - b) <= rel * max(abs(a), abs(b), hint)


def frac(x):
    return Fraction(x)


# ---- numbers of every real type -------------------------------------------------------------------------
# A number argument of the statement (a target scale, a weight, a number of events) is "a number": the
# docstrings say "if a number is given" (GroupScale), "a numeric other" (graph.scale). The plain
# alphabets hold ints and floats; a *typed number* is the JSON-able pair [kind, text] of a number of
# another real type (or of a magnitude JSON numbers would not keep), built anew for every execution.
class IntSub(int):
    """A subclass of int (what e.g. enum.IntEnum members or numpy-like wrappers are)."""
    __slots__ = ()


class FloatSub(float):
    """A subclass of float."""
    __slots__ = ()


NUMBER_KINDS = ["int", "bool", "float", "IntSub", "FloatSub", "Fraction", "Decimal"]
_BUILD = {
    "int": int, "float": float, "IntSub": lambda t: IntSub(int(t)), "FloatSub": lambda t: FloatSub(float(t)),
    "Fraction": Fraction, "Decimal": Decimal, "bool": lambda t: {"True": True, "False": False}[t],
}


def is_typed(t):
    return isinstance(t, (list, tuple))


def number(t):
    """The number object of a plain (int / float / None) or typed ([kind, text]) number."""
    if is_typed(t):
        return _BUILD[t[0]](t[1])
    return t


def kind_of(t):
    if is_typed(t):
        return t[0]
    return type(t).__name__


def exact(t):
    """The value of a plain or typed number as a Fraction."""
    return Fraction(number(t))


def is_real(x):
    return isinstance(x, (int, float, Fraction, Decimal))


def rclose(a, b, hint=0.0, rel=REL):
    """close() for results of any real number type (bool, Fraction, Decimal, subclasses): the statement
    speaks about values, so whatever real type the arithmetic of the operands gives is accepted."""
    if not (is_real(a) and is_real(b)):
        return False
    try:
        fa, fb = Fraction(a), Fraction(b)
    except (ValueError, OverflowError, TypeError):
        return False  # nan, infinity
    if fa == fb:
        return True
    return abs(fa - fb) <= Fraction(rel) * max(abs(fa), abs(fb), Fraction(hint))


# value texts per kind: the values 1, 2, -3, 1/2, 3/2, -7/4, 1/3 and 10**20 in every kind that can hold them
_TYPED_ALL = [
    ("bool", ["True"]),
    ("IntSub", ["2", "-3", "100000000000000000000"]),
    ("FloatSub", ["2.0", "-3.0", "0.5", "1.5", "-1.75"]),
    ("Fraction", ["2", "-3", "1/2", "3/2", "-7/4", "1/3"]),
    ("Decimal", ["2", "-3", "0.5", "1.5", "-1.75"]),
    ("int", ["100000000000000000000"]),
]
_TYPED_QUICK = [
    ("bool", ["True"]),
    ("IntSub", ["2", "-3"]),
    ("FloatSub", ["0.5", "-3.0"]),
    ("Fraction", ["2", "3/2", "-7/4", "1/3"]),
    ("Decimal", ["1.5", "-3"]),
    ("int", ["100000000000000000000"]),
]


def typed_numbers(tier, decimal=False):
    """Typed numbers of a tier, simplest first. Decimal only where asked for: Python does not mix
    Decimal with float, and histograms hold float edges / contents / integrals."""
    table = _TYPED_ALL if tier == "thorough" else _TYPED_QUICK
    return [[kind, text] for kind, texts in table for text in texts if decimal or kind != "Decimal"]


# ---- histogram specifications -------------------------------------------------------------------------
AXIS_POOLS = [
    ("int", [0, 1, 2, 3, 4]),
    ("dyadic", [-2, -0.5, 2, 10, 10.25]),
    ("noise", [0.1, 0.2, 0.30000000000000004, 0.4, 0.5]),
    ("wide", [-1000.0, 1e-3, 1, 1e6, 1e9]),
    ("tiny", [0, 1e-9, 1e-3, 1.5, 4]),
]
CODINGS = ["int", "half", "signed"]


def dom(tier):
    """The bounds of a tier."""
    if tier == "thorough":
        return {"maxbins": {1: 4, 2: 4, 3: 3}, "contents": [0, 1, 2, -1, 0.5, -2.5],
                "max_exhaustive": 4, "targets": [1, 2, 0.5, -3, 1000, -0.125],
                "weights": [1, 2, -1, 0.5, -2.5], "graph_points": [0, 1, 2, 3, 4]}
    return {"maxbins": {1: 3, 2: 3, 3: 3}, "contents": [0, 1, 2, -1, 0.5],
            "max_exhaustive": 4, "targets": [1, 2, 0.5, -3, 1000],
            "weights": [1, 2, -1, 0.5], "graph_points": [0, 1, 3]}


def axis_edges(pool, nbins):
    return list(AXIS_POOLS[pool][1][:nbins + 1])


def make_edges(shape, pools):
    axes = [axis_edges(p, n) for p, n in zip(pools, shape)]
    return axes[0] if len(axes) == 1 else axes


def ncells(shape):
    n = 1
    for s in shape:
        n *= s
    return n


def nest(flat_values, shape):
    """Nested bins of the given shape from a flat list in cell order (first axis slowest)."""
    it = iter(flat_values)

    def build(k):
        if k == len(shape) - 1:
            return [next(it) for _ in range(shape[k])]
        return [build(k + 1) for _ in range(shape[k])]
    return build(0)


def coded(coding, n):
    if coding == "int":
        return [k + 1 for k in range(n)]
    if coding == "half":
        return [(k + 1) * 0.5 for k in range(n)]
    if coding == "signed":
        return [(k + 2) * (-1 if k % 2 else 1) * (0.25 if k % 3 == 0 else 1) for k in range(n)]
    raise KeyError(coding)


def all_shapes(dim, maxbins=3):
    return sorted(itertools.product(range(1, maxbins + 1), repeat=dim), key=lambda s: (ncells(s), s))


def pool_combos(dim, tier):
    """Which axis pools are combined (indices into AXIS_POOLS)."""
    if dim == 1:
        return [(p,) for p in range(len(AXIS_POOLS) if tier == "thorough" else 4)]
    if dim == 2:
        k = 5 if tier == "thorough" else 3
        return list(itertools.product(range(k), repeat=2))
    if tier == "thorough":
        return list(itertools.product(range(3), repeat=3)) + [(3, 4, 0), (4, 3, 1), (3, 3, 3)]
    return [(0, 0, 0), (1, 1, 1), (2, 2, 2), (0, 1, 2), (2, 1, 0), (1, 2, 0)]


def content_lists(shape, contents, max_exhaustive):
    """Flat content lists for a shape: exhaustive over *contents* up to *max_exhaustive* cells, index
    coded (all cells distinct) beyond."""
    n = ncells(shape)
    if n <= max_exhaustive:
        return [list(c) for c in itertools.product(contents, repeat=n)]
    return [coded(c, n) for c in CODINGS]


def frames(tier, dims=(1, 2, 3)):
    """Deterministic list of (shape, pools, edges), simplest first."""
    d = dom(tier)
    out = []
    for dim in dims:
        for shape in all_shapes(dim, d["maxbins"][dim]):
            for pools in pool_combos(dim, tier):
                out.append((shape, pools, make_edges(shape, pools)))
    return out


def hist_specs(tier, dims=(1, 2, 3), max_exhaustive=None):
    """Deterministic list of histogram specifications, simplest first."""
    d = dom(tier)
    if max_exhaustive is None:
        max_exhaustive = d["max_exhaustive"]
    out = []
    for shape, pools, edges in frames(tier, dims):
        for flat in content_lists(shape, d["contents"], max_exhaustive):
            out.append({"edges": edges, "bins": nest(flat, shape)})
    return out


def coded_specs(tier, dims=(1, 2, 3), codings=CODINGS):
    """One specification per (shape, pool combination, coding): all cells distinct."""
    out = []
    for shape, pools, edges in frames(tier, dims):
        for c in codings:
            out.append({"edges": edges, "bins": nest(coded(c, ncells(shape)), shape)})
    return out


def shape_of(edges):
    return tuple(len(a) - 1 for a in R.unify(edges))


def copy_edges(edges):
    if isinstance(edges[0], (list, tuple)):
        return [list(a) for a in edges]
    return list(edges)


def copy_bins(bins):
    if isinstance(bins, list):
        return [copy_bins(b) for b in bins]
    return bins


def snapshot(h):
    """Everything the statement speaks about, in a comparable form (types included)."""
    return (repr(h.edges), repr(h.bins), repr(h.n_out_of_range))


# ---- cells ----------------------------------------------------------------------------------------------
def cell_edges(edges, idx):
    axes = R.unify(edges)
    return tuple((axes[k][i], axes[k][i + 1]) for k, i in enumerate(idx))


def ref_cells(edges, bins):
    """[(index, content, ((lo, hi), ...))] in the documented order."""
    return [(idx, R.get_cell(bins, idx), cell_edges(edges, idx)) for idx in R.cells_in_order(edges)]


def norm_cell_edges(e):
    """Cell edges as a tuple of (lo, hi) pairs, whatever container the function used."""
    e = tuple(e)
    if len(e) == 2 and is_num(e[0]) and is_num(e[1]):
        return ((e[0], e[1]),)
    return tuple(tuple(p) for p in e)


# ---- integral -------------------------------------------------------------------------------------------
def integral_info(edges, bins):
    """(exact integral as a Fraction, sum of |terms| as a Fraction, decidable)

    *decidable* is True when every float operation any summation order could perform is exact (all
    terms are multiples of a common power of two and the sum of magnitudes stays below 2**53 units),
    so that "the scale is zero" is the same question for the exact and for the floating computation."""
    total = Fraction(0)
    mag = Fraction(0)
    axes = R.unify(edges)
    for idx, content, ce in ref_cells(edges, bins):
        vol = Fraction(1)
        for lo, hi in ce:
            vol *= Fraction(hi) - Fraction(lo)
        t = vol * Fraction(content)
        total += t
        mag += abs(t)
    k_e, k_c = 8, 8
    ok = True
    for a in axes:
        for e in a:
            f = Fraction(e) * 2 ** k_e
            if f.denominator != 1 or abs(e) > 2 ** 12:
                ok = False
    for v in R.flat(bins):
        f = Fraction(v) * 2 ** k_c
        if f.denominator != 1:
            ok = False
    unit = Fraction(1, 2 ** (k_e * len(axes) + k_c))
    decidable = ok and mag / unit < 2 ** 52
    return total, mag, decidable


def sum_info(values):
    total = Fraction(0)
    mag = Fraction(0)
    for v in values:
        total += Fraction(v)
        mag += abs(Fraction(v))
    return total, mag


# ---- CSV ------------------------------------------------------------------------------------------------
def ref_csv_rows(edges, bins, duplicate):
    """Rows (coordinates..., content) ToCSV must write for a 1- or 2-dimensional histogram: one per cell
    at the cell's lower edges, plus - when the last bin is duplicated - rows at the last edge of each
    axis holding the content of the nearest cell."""
    axes = R.unify(edges)
    ranges = []
    for a in axes:
        n = len(a) - 1
        ranges.append(list(range(n + 1 if duplicate else n)))
    rows = []
    for idx in itertools.product(*ranges):
        coords = [axes[k][i] for k, i in enumerate(idx)]
        clipped = tuple(min(i, len(axes[k]) - 2) for k, i in enumerate(idx))
        is_dup = clipped != tuple(idx)
        rows.append((coords, R.get_cell(bins, clipped), is_dup))
    return rows


def parse_csv(text, separator):
    if text == "":
        return []
    return [[float(tok) for tok in line.split(separator)] for line in text.split("\n")]


def csv_close(parsed, value):
    return abs(parsed - value) <= CSV_ABS + 1e-15 * abs(value)


# ---- graphs ---------------------------------------------------------------------------------------------
COORD_NAME_SETS = [
    ("x", "y", "z"),
    ("E", "time", "err"),
    ("x", "xy", "x_y"),
    ("xy", "x", "xyz"),      # a later coordinate whose name is a prefix of an earlier one
]
ERROR_SUFFIXES = ["", "_low", "_high"]


def error_owner(name, coord_names):
    """The coordinates an error field may belong to: 'error_' + coordinate name, optionally followed
    by '_' + details."""
    if not name.startswith("error_"):
        return []
    main = name[len("error_"):]
    return [c for c in coord_names if main == c or main.startswith(c + "_")]


def valid_naming(names, dim):
    """Distinct names, *dim* coordinates first, every error field owned by exactly one coordinate."""
    if len(set(names)) != len(names):
        return False
    coords = names[:dim]
    if any(c.startswith("error_") for c in coords):
        return False
    return all(len(error_owner(e, coords)) == 1 for e in names[dim:])


def graph_namings(dim, max_errors, name_sets=None):
    """Every valid naming: coordinate names followed by every ordered choice of 0..max_errors
    distinct error fields of those coordinates."""
    out = []
    for ns in (name_sets if name_sets is not None else range(len(COORD_NAME_SETS))):
        coords = COORD_NAME_SETS[ns][:dim]
        pool = ["error_" + c + s for c in coords for s in ERROR_SUFFIXES]
        for k in range(max_errors + 1):
            for errs in itertools.permutations(pool, k):
                names = tuple(coords) + tuple(errs)
                if valid_naming(names, dim):
                    out.append((dim, names))
    return out


def rescaled_columns(names, dim):
    """Indices of the columns the statement says are rescaled: the last coordinate and its errors."""
    coords = names[:dim]
    last = coords[-1]
    return [dim - 1] + [i for i in range(dim, len(names)) if error_owner(names[i], coords) == [last]]


def graph_columns(ncols, npoints):
    """Distinct numbers (ints and floats, both signs, one zero) for column k, point j."""
    cols = []
    for k in range(ncols):
        col = []
        for j in range(npoints):
            v = (k + 1) * 10 + j
            if (k + j) % 3 == 1:
                v = -v / 4.0
            elif (k + j) % 3 == 2:
                v = v + 0.5
            if k == ncols - 1 and j == 1:
                v = 0
            col.append(v)
        cols.append(col)
    return cols
