"""Reference models for C15 (selectors, SelectContext, Filter, GroupBy).

Written from the property statement and the docstrings only. Nothing here imports lena except for
the exception class a predicate may raise; no control flow of lena is copied.

Selector specifications are plain nested tuples (JSON-able after list conversion):

    ("s", "a.b")            string leaf: the context contains the dotted path
    ("c", "int")            class leaf: the data part is an instance of the class
    ("f", "r_len")          callable leaf (total or raising), applied to the whole value
    ("sc", "list", "a.b", "p_pos")   SelectContext leaf (key notation, dotted path, predicate):
                            the predicate is applied to the addressed sub-context
    ("or", (spec, ...))     list  -> OR
    ("and", (spec, ...))    tuple -> AND
    ("not", spec, roe)      Not(spec, raise_on_error=roe)
    ("sel", spec, roe)      Selector(spec, raise_on_error=roe)  (an explicitly pre-built sub-selector)

An outcome is ("ok", bool) or ("exc", exception type name).
"""

# --------------------------------------------------------------------------------------------------
# values
# --------------------------------------------------------------------------------------------------


def split_value(v):
    """(data, context) of a flow value: a pair whose second item is a dict carries a context."""
    if isinstance(v, tuple) and len(v) == 2 and isinstance(v[1], dict):
        return v[0], v[1]
    return v, {}


# --------------------------------------------------------------------------------------------------
# leaves
# --------------------------------------------------------------------------------------------------

def ref_contains(ctx, dotted):
    """'the context contains the sub-dictionary written as a dotted string'; when the walk arrives
    at a value that is not a dictionary, only the *last* component may still match, by the string
    form of that value (docstring of lena.context.contains)."""
    parts = dotted.split(".")
    cur = ctx
    for i, k in enumerate(parts):
        last = (i == len(parts) - 1)
        if isinstance(cur, dict):
            if k not in cur:
                return False
            if last:
                return True
            cur = cur[k]
        else:
            return last and str(cur) == k
    return False


CLASSES = {"int": int, "str": str, "list": list,
           # a class whose metaclass is not `type` (an abstract base class): strings and lists are Sized
           "sized": __import__("collections.abc").abc.Sized}


def t_ctx(v):
    """total: has a non-empty context"""
    return bool(split_value(v)[1])


def t_num(v):
    """total, returns a non-bool: the integer data itself (0 is falsy), 0 for other data"""
    d = split_value(v)[0]
    return d if isinstance(d, int) else 0


def r_len(v):
    """raises TypeError for data without len; truth = non-empty"""
    return len(split_value(v)[0]) > 0


def r_div(v):
    """raises ZeroDivisionError for 0, TypeError for str/list; returns an int (2 // d)"""
    return 2 // split_value(v)[0]


class OwnError(Exception):
    """A user's own exception type (not a subclass of the built-in error families)."""


def r_always(v):
    raise OwnError("always")


CALLABLES = {"t_ctx": t_ctx, "t_num": t_num, "r_len": r_len, "r_div": r_div, "r_always": r_always}


def p_is1(sc):
    return sc == 1


def p_falsy(sc):
    return not sc


def p_pos(sc):
    """TypeError for a dict / str / None sub-context"""
    return sc > 0


def p_len(sc):
    """TypeError for an int / None sub-context; returns an int"""
    return len(sc)


PREDICATES = {"p_is1": p_is1, "p_falsy": p_falsy, "p_pos": p_pos, "p_len": p_len}

_ABSENT = object()


def path_of(dotted):
    """Key path written as a dotted string; the empty string is the empty path (the whole context)."""
    return dotted.split(".") if dotted else []


def sc_key(notation, dotted):
    """The SelectContext key object for a dotted path in one of the documented notations: dotted
    string, list of components, one-key-per-level dictionary - {"a": "b"} ("dict", what str_to_dict
    builds) or {"a": {"b": {}}} ("dict0", 'at most one key at each level') both mean a.b.
    The empty path (the context itself, 'if keys is empty, d is returned') is "", [] or {}."""
    parts = path_of(dotted)
    if notation == "str":
        return dotted
    if notation == "list":
        return parts
    if notation == "dict":
        if not parts:
            return {}
        key = parts[-1]
        for k in reversed(parts[:-1]):
            key = {k: key}
        return key
    if notation == "dict0":
        key = {}
        for k in reversed(parts):
            key = {k: key}
        return key
    raise ValueError(notation)


def sc_notations(dotted):
    """The notations in which *dotted* can be written as distinct key objects."""
    n = len(path_of(dotted))
    if n == 0:
        return ["str", "list", "dict"]          # "", [], {}
    if n == 1:
        return ["str", "list", "dict0"]         # the "dict" form of one key is the string itself
    return ["str", "list", "dict", "dict0"]


def descent(ctx, path):
    """Number of leading components of *path* that are keys of the nested dictionaries of *ctx*."""
    cur, n = ctx, 0
    for k in path:
        if not isinstance(cur, dict) or k not in cur:
            break
        cur = cur[k]
        n += 1
    return n


def lookup(ctx, path):
    cur = ctx
    for k in path:
        if not isinstance(cur, dict) or k not in cur:
            return _ABSENT
        cur = cur[k]
    return cur


def _call(f, arg):
    try:
        return ("ok", bool(f(arg)))
    except Exception as e:  # noqa: the type is the observation
        return ("exc", type(e).__name__)


def leaf_outcome(spec, value):
    """Outcome of a leaf with exceptions propagating (raise_on_error=True)."""
    kind = spec[0]
    data, ctx = split_value(value)
    if kind == "s":
        return ("ok", ref_contains(ctx, spec[1]))
    if kind == "c":
        return ("ok", isinstance(data, CLASSES[spec[1]]))
    if kind == "f":
        return _call(CALLABLES[spec[1]], value)
    if kind == "sc":
        sub = lookup(ctx, path_of(spec[2]))
        if sub is _ABSENT:
            return ("ok", False)
        return _call(PREDICATES[spec[3]], sub)
    raise ValueError(spec)


def is_leaf(spec):
    return spec[0] in ("s", "c", "f", "sc")


FALSE = ("ok", False)


def evaluate(spec, value, roe, leaf_level=False, eager=False, leaf=leaf_outcome, memo=None):
    """Reference evaluation. *roe* is the raise_on_error in force for newly converted items.

    default            : OR / AND short-circuit from the left; a node with raise_on_error=False turns
                         any exception from below into "not selected"
    eager=True         : AND evaluates every item (an exception in any item propagates); OR stays
                         short-circuit (documented by Or: "if a selector was true, further ones are
                         not applied"; And documents nothing about it)
    leaf_level=True    : an exception counts as False *at the leaf* as soon as any enclosing node
                         (or the leaf's own setting) has raise_on_error=False
    All readings coincide when one raise_on_error setting is used throughout and nothing raises past
    a short-circuit point.  Returns a set of acceptable outcomes (one element unless eager).

    *leaf(spec, value)* gives the outcome of a leaf with exceptions propagating.  *memo* is an optional
    {spec: {}} dictionary: results are remembered for the specifications registered in it (the shared
    items of an enumeration), which changes nothing but the speed.
    """
    return _ev(spec, value, roe, not roe, leaf_level, eager, leaf, memo)


def _ev(spec, value, roe, guarded, leaf_level, eager, leaf, memo):
    if memo is not None and not is_leaf(spec):
        sub = memo.get(spec)
        if sub is not None:
            key = (value, roe, guarded, leaf_level, eager)
            got = sub.get(key)
            if got is None:
                got = _ev1(spec, value, roe, guarded, leaf_level, eager, leaf, memo)
                sub[key] = got
            return got
    return _ev1(spec, value, roe, guarded, leaf_level, eager, leaf, memo)


def _ev1(spec, value, roe, guarded, leaf_level, eager, leaf, memo):
    kind = spec[0]
    if is_leaf(spec):
        o = leaf(spec, value)
        if o[0] == "exc" and (not roe or (leaf_level and guarded)):
            o = FALSE
        return frozenset((o,))
    if kind in ("sel", "not"):
        r = spec[2]
        inner = _ev(spec[1], value, r, guarded or not r, leaf_level, eager, leaf, memo)
        out = set()
        for o in inner:
            if o[0] == "exc":
                out.add(FALSE if not r else o)
            else:
                out.add(o)
        if kind == "not":
            out = set(("ok", not o[1]) if o[0] == "ok" else o for o in out)
        return frozenset(out)
    if kind in ("or", "and"):
        stop_on = (kind == "or")
        if not eager or kind == "or":
            # left-to-right, stopping at the first deciding item.  An item may have several acceptable
            # outcomes (an AND below, in the eager reading): every outcome that does not decide lets
            # the evaluation go on to the next item.  OR is always evaluated this way: Or documents
            # "Evaluation is short-circuit, that is if a selector was true, further ones are not applied".
            out = set()
            for child in spec[1]:
                goes_on = False
                for o in _ev(child, value, roe, guarded, leaf_level, eager, leaf, memo):
                    if o[0] == "exc":
                        out.add(o)
                    elif o[1] == stop_on:
                        out.add(("ok", stop_on))
                    else:
                        goes_on = True
                if not goes_on:
                    return frozenset(out)
            out.add(("ok", not stop_on))
            return frozenset(out)
        excs = set()
        vals = []
        for child in spec[1]:
            for o in _ev(child, value, roe, guarded, leaf_level, eager, leaf, memo):
                if o[0] == "exc":
                    excs.add(o)
                else:
                    vals.append(o[1])
        if excs:
            return frozenset(excs)
        return frozenset((("ok", any(vals) if kind == "or" else all(vals)),))
    raise ValueError(spec)


def acceptable(spec, value, roe, mixed=False, leaf=leaf_outcome, memo=None):
    """All outcomes the statement allows for this case."""
    acc = set(evaluate(spec, value, roe, leaf=leaf, memo=memo))
    acc |= evaluate(spec, value, roe, eager=True, leaf=leaf, memo=memo)
    if mixed:
        acc |= evaluate(spec, value, roe, leaf_level=True, leaf=leaf, memo=memo)
        acc |= evaluate(spec, value, roe, leaf_level=True, eager=True, leaf=leaf, memo=memo)
    return frozenset(acc)


def contains_not(spec):
    if is_leaf(spec):
        return False
    if spec[0] == "not":
        return True
    if spec[0] == "sel":
        return contains_not(spec[1])
    return any(contains_not(c) for c in spec[1])


def leaves_of(spec, acc=None):
    if acc is None:
        acc = []
    if is_leaf(spec):
        acc.append(spec)
    elif spec[0] in ("or", "and"):
        for c in spec[1]:
            leaves_of(c, acc)
    else:
        leaves_of(spec[1], acc)
    return acc


def depth_of(spec):
    if is_leaf(spec):
        return 0
    if spec[0] in ("or", "and"):
        return 1 + max([depth_of(c) for c in spec[1]] or [0])
    if spec[0] == "sel":
        return depth_of(spec[1])
    return 1 + depth_of(spec[1])


def has_list(spec):
    """The specification contains a list (the only container a user can change after he has handed it
    to a selector)."""
    if is_leaf(spec):
        return False
    if spec[0] == "or":
        return True
    if spec[0] == "and":
        return any(has_list(c) for c in spec[1])
    return has_list(spec[1])


def edit_spec(spec, edit):
    """The specification a user's object describes after he has edited EVERY list in it (the items
    first, then the list itself):  ("append", leaf)  ("insert", leaf) = in front  ("pop",) = drop the
    last item of a non-empty list  ("replace", leaf) = item 0 of a non-empty list becomes *leaf*.
    Tuples cannot be edited, the lists inside them can; items that are pre-built selectors stay."""
    if is_leaf(spec):
        return spec
    if spec[0] == "and":
        return ("and", tuple(edit_spec(c, edit) for c in spec[1]))
    if spec[0] == "or":
        items = [edit_spec(c, edit) for c in spec[1]]
        edit_list(items, edit[0], edit[1] if len(edit) > 1 else None)
        return ("or", tuple(items))
    return spec     # a pre-built selector is an item like a leaf: the user has no list of it any more


def edit_list(items, op, item):
    """One edit of one Python list, in place (used for the model's item list and for the user's list)."""
    if op == "append":
        items.append(item)
    elif op == "insert":
        items.insert(0, item)
    elif op == "pop":
        if items:
            items.pop()
    elif op == "replace":
        if items:
            items[0] = item
    else:
        raise ValueError(op)


def to_json(spec):
    if isinstance(spec, tuple):
        return [to_json(x) for x in spec]
    return spec


def from_json(x):
    """Inverse of to_json for specifications."""
    if isinstance(x, list):
        return tuple(from_json(i) for i in x)
    return x


# --------------------------------------------------------------------------------------------------
# GroupBy
# --------------------------------------------------------------------------------------------------

def entry(key):
    """Key path listed in group_by / merge; the empty string is the root (empty path)."""
    return tuple(key.split(".")) if key else ()


def governing(path, listed):
    """Longest listed entry that is a prefix of *path* (None when nothing is listed above it)."""
    best = None
    for e in listed:
        if len(e) <= len(path) and path[:len(e)] == e:
            if best is None or len(e) > len(best):
                best = e
    return best


def walk(ctx, prefix=()):
    """Yield (path, value) for every node of a nested dictionary (interior nodes included)."""
    for k in ctx:
        v = ctx[k]
        p = prefix + (k,)
        yield p, v
        if isinstance(v, dict):
            for item in walk(v, p):
                yield item


def _plain(v):
    """Hashable comparison form of a leaf value (JSON-like leaves only)."""
    if isinstance(v, list):
        return ("list",) + tuple(_plain(i) for i in v)
    return (type(v).__name__, v)


def projections(ctx, group_by, merge):
    """(leaves, skeleton) of *ctx* under the longest-prefix rule.

    leaves   : set of (key path, value) for every non-dictionary value whose longest listed prefix is
               a group_by entry -- two contexts that differ here MUST be in different groups.
    skeleton : set of key paths holding a dictionary that an implementation may legitimately keep as
               an (empty) interior node of the projection: the path is governed by a group_by entry,
               or it lies on the way to a listed entry.  Two contexts with equal leaves AND equal
               skeleton MUST share a group; when only the skeleton differs nothing is demanded
               (DESIGN.md R2).
    """
    g = set(entry(k) for k in group_by)
    m = set(entry(k) for k in merge)
    listed = g | m
    leaves = set()
    skeleton = set()
    for path, v in walk(ctx):
        gov = governing(path, listed)
        counted = gov is not None and gov in g
        if isinstance(v, dict):
            on_the_way = any(len(e) > len(path) and e[:len(path)] == path for e in listed)
            if counted or on_the_way:
                skeleton.add(path)
        elif counted:
            leaves.add((path, _plain(v)))
    return frozenset(leaves), frozenset(skeleton)


def expects_dict(path, group_by, merge):
    """A listed entry lies strictly below *path*: a scalar there stands where a dictionary is expected."""
    for k in tuple(group_by) + tuple(merge):
        e = entry(k)
        if len(e) > len(path) and e[:len(path)] == path:
            return True
    return False
