"""Reference models and alphabets shared by the C06 and C12 checks.

Everything here is written from the property statements and the docstrings of lena.structures,
never from the control flow of the implementation: the bin index is a plain count of edges, the
histogram is a nested list updated at an index found by that count, cells are enumerated by
itertools.product, a CSV block is parsed with str.split and float.
"""
import copy
import itertools
import math
from fractions import Fraction

INF = float("inf")


# ---- JSON-safe numbers (replay files) -----------------------------------------------------------
def enc(x):
    """A number (or nested list/tuple of numbers) in a form json can carry exactly."""
    if isinstance(x, (list, tuple)):
        return [enc(v) for v in x]
    if isinstance(x, float) and (x != x or x in (INF, -INF)):
        return repr(x)
    return x


def dec(x):
    if isinstance(x, list):
        return [dec(v) for v in x]
    if isinstance(x, str):
        return float(x)
    return x


# ---- the bin index: number of edges not greater than the value, minus one ------------------------
def ref_index(edges, x):
    n = 0
    for e in edges:
        if e <= x:
            n += 1
    return n - 1


def position(edges, x):
    """Where x lies relative to a 1-d edge array (used only to label causes)."""
    if x < edges[0]:
        return "below-range"
    if x > edges[-1]:
        return "above-range"
    if x == edges[-1]:
        return "last-edge"
    if x == edges[0]:
        return "first-edge"
    for e in edges:
        if x == e:
            return "inner-edge"
    return "interior"


def unify(edges):
    """Per-axis list of edge arrays (1-d histograms keep a flat edge list in lena)."""
    if isinstance(edges[0], (list, tuple)):
        return [list(a) for a in edges]
    return [list(edges)]


def flat(bins):
    if isinstance(bins, list):
        if bins and not isinstance(bins[0], list):
            return list(bins)
        out = []
        for b in bins:
            out.extend(flat(b))
        return out
    return [bins]


def get_cell(bins, idx):
    for i in idx:
        bins = bins[i]
    return bins


def cells_in_order(edges):
    """All cell indices, first axis slowest (the order lena documents for iter_bins)."""
    axes = unify(edges)
    return list(itertools.product(*[range(len(a) - 1) for a in axes]))


def zero_bins(edges, value=0):
    axes = unify(edges)

    def build(k):
        if k == len(axes) - 1:
            return [value for _ in range(len(axes[k]) - 1)]
        return [build(k + 1) for _ in range(len(axes[k]) - 1)]
    return build(0)


def coded_bins(edges, code=lambda k: k + 1):
    """Bins whose contents are all distinct (index coded), so that a write to a wrong cell shows."""
    axes = unify(edges)
    counter = itertools.count()

    def build(k):
        if k == len(axes) - 1:
            return [code(next(counter)) for _ in range(len(axes[k]) - 1)]
        return [build(k + 1) for _ in range(len(axes[k]) - 1)]
    return build(0)


def _copy_nested(x):
    if isinstance(x, list):
        if x and not isinstance(x[0], list):
            return list(x)
        return [_copy_nested(v) for v in x]
    return x


class ModelHist(object):
    """The histogram of the statement: a weight goes to the one cell whose half-open intervals
    contain the coordinate in every dimension, otherwise to n_out_of_range."""

    def __init__(self, edges, bins=None, n_out=0):
        self.axes = unify(edges)
        self.bins = _copy_nested(bins) if bins is not None else zero_bins(edges)
        self.n_out = n_out
        self.total = Fraction(n_out)
        if bins is not None:
            self.total += sum((Fraction(v) for v in flat(self.bins)), Fraction(0))

    def cell_of(self, coord):
        if len(self.axes) == 1 and not isinstance(coord, (list, tuple)):
            coord = (coord,)
        idx = tuple(ref_index(a, c) for a, c in zip(self.axes, coord))
        inside = all(0 <= i < len(a) - 1 for i, a in zip(idx, self.axes))
        return idx, inside

    def fill(self, coord, weight=1):
        idx, inside = self.cell_of(coord)
        if inside:
            sub = self.bins
            for i in idx[:-1]:
                sub = sub[i]
            sub[idx[-1]] = sub[idx[-1]] + weight
        else:
            self.n_out = self.n_out + weight
        self.total += Fraction(weight)
        return idx, inside


def neighbours(x):
    """x and its two floating-point neighbours (of float(x) for an integer)."""
    if x in (INF, -INF):
        return [x]
    f = float(x)
    return [math.nextafter(f, -INF), x, math.nextafter(f, INF)]


# ---- edge pools -----------------------------------------------------------------------------------
def _na(x, k=1):
    for _ in range(k):
        x = math.nextafter(x, INF)
    return x


POOLS9 = [
    ("uniform-int", [0, 1, 2, 3, 4, 5, 6, 7, 8]),
    ("uniform-half", [-2.0, -1.5, -1.0, -0.5, 0.0, 0.5, 1.0, 1.5, 2.0]),
    ("nonuniform", [0, 1e-9, 1e-3, 1, 2, 10, 1e3, 1e6, 1e9]),
    ("powers-of-two", [1, 2, 4, 8, 16, 32, 64, 128, 256]),
    ("huge-last-bin", [0, 1, 2, 3, 4, 5, 6, 7, 1e12]),
    ("tiny-first-bin", [0, 1e-12, 1, 2, 3, 4, 5, 6, 7]),
    ("float-noise", [k * 0.1 for k in range(1, 10)]),
    ("magnitudes", [1e-300, 1e-200, 1e-100, 1e-10, 1, 1e10, 1e100, 1e200, 1e300]),
    ("negative", [-1e300, -1e100, -1e3, -8, -7.5, -1, -1e-5, -1e-300, 0]),
    ("mixed-sign", [-1e9, -1, -1e-9, 0, 1e-9, 1, 2, 3, 1e9]),
    ("adjacent-floats", [1.0, _na(1.0), _na(1.0, 2), 1.5, 2, _na(2.0), 3, 4, 5]),
    ("big-int", [2 ** 53 - 1, 2 ** 53, 2 ** 53 + 1, 2 ** 53 + 2, 2 ** 60, 2 ** 60 + 1, 2 ** 62,
                 2 ** 63, 2 ** 64]),
    ("thirds", [k / 3.0 for k in range(-4, 5)]),
    # finite edges and a finite span close to the largest float: every difference and every quotient
    # of differences is finite, products of a difference with a small integer are not
    ("near-max", [0, 2e307, 4e307, 6e307, 8e307, 1e308, 1.2e308, 1.4e308, 1.6e308]),
]

POOLS12 = [
    ("uniform-int-12", list(range(12))),
    ("nonuniform-12", [0, 1e-9, 1e-6, 1e-3, 0.5, 1, 2, 10, 1e3, 1e6, 1e9, 1e12]),
    ("float-noise-12", [k * 0.1 for k in range(1, 13)]),
    ("powers-of-two-12", [2 ** k for k in range(12)]),
    ("cubes-12", [k ** 3 for k in range(-6, 6)]),
    ("negative-12", [-1e12, -1e9, -1e6, -1e3, -10, -2, -1, -0.5, -1e-3, -1e-6, -1e-9, 0]),
]


def edge_arrays(tier):
    """The deterministic, duplicate-free list of (pool name, edge array), simplest first."""
    maxlen9 = 9 if tier == "thorough" else 6
    seen = set()
    out = []
    for length in range(2, 13):
        for name, pool in POOLS9:
            if length > maxlen9:
                continue
            for sub in itertools.combinations(pool, length):
                key = tuple((type(v).__name__, repr(v)) for v in sub)
                if key not in seen:
                    seen.add(key)
                    out.append((name, list(sub)))
        if length >= (6 if tier == "thorough" else 10):
            for name, pool in POOLS12:
                for sub in itertools.combinations(pool, length):
                    key = tuple((type(v).__name__, repr(v)) for v in sub)
                    if key not in seen:
                        seen.add(key)
                        out.append((name, list(sub)))
    return out


def pool_of(name):
    for n, p in POOLS9 + POOLS12:
        if n == name:
            return p
    raise KeyError(name)


def coordinates(edges, pool):
    """Every pool number (edges of this array and points inside its bins), their floating-point
    neighbours, every midpoint of adjacent edges, values far outside, both infinities."""
    out = []
    seen = set()

    def add(x):
        key = (type(x).__name__, repr(x))
        if key not in seen:
            seen.add(key)
            out.append(x)
    for p in pool:
        for x in neighbours(p):
            add(x)
    for a, b in zip(edges, edges[1:]):
        add(a / 2.0 + b / 2.0)
    span = float(edges[-1]) - float(edges[0])
    for x in (edges[0] - span, float(edges[0]) - 1e-3 * span, edges[-1] + span, -1e308, 1e308,
              -INF, INF, 0, -0.0):
        add(x)
    return out


def axis_coordinates(axis, rich=True):
    """Coordinates for one axis of a multidimensional histogram: outside on both sides, every edge
    with its neighbours and every midpoint (rich), or every edge (a point inside its bin) and the
    value just below the last edge."""
    out = []
    seen = set()

    def add(x):
        key = (type(x).__name__, repr(x))
        if key not in seen:
            seen.add(key)
            out.append(x)
    span = float(axis[-1]) - float(axis[0])
    add(axis[0] - span)
    for e in axis:
        if rich:
            for x in neighbours(e):
                add(x)
        else:
            add(e)
    if not rich:
        add(math.nextafter(float(axis[-1]), -INF))
    if rich:
        for a, b in zip(axis, axis[1:]):
            add(a / 2.0 + b / 2.0)
    add(axis[-1] + span)
    return out
