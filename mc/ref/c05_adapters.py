"""C05, part B: the adapter table.

An *element kind* is a class with any combination of the attribute names below, each absent (0), a
method (1) or a non-callable attribute (2). `expected(...)` is the reference model: it is written from
the adapters' docstrings (lena/core/adapters.py) as a list of readings

    [("reject",)]                      construction must raise LenaTypeError
    [("accept", rule), ...]            construction must succeed and the adapter must behave like the
                                       wrapped method selected by *rule* (several entries = the docstring
                                       does not decide which of them applies: each is accepted)
    [("reject",), ("accept", rule)]    the docstring does not decide whether this is accepted

and `direct(...)` performs, on a twin object, what the docstring says the adapter does for that rule
(call the wrapped method; map a callable over the flow; fill everything then compute; run a flow of one
value and fill the results). `exercise(...)` drives the real adapter with the same canned input.
"""
import lena.core

NAMES = ["__call__", "run", "fill", "compute", "request", "fill_into", "_can_break_flow", "__iter__",
         "custom"]
ADAPTERS = ["Call", "Run", "FillInto", "FillCompute", "SourceEl", "Sequence"]
DEFAULT = "<default>"
MISSING = "no_such_method"
NAME_ARGS = [DEFAULT] + NAMES + [MISSING]


# ---------------------------------------------------------------------------------------------------
# element kinds

class Sink(object):
    def __init__(self):
        self.got = []

    def fill(self, value):
        self.got.append(value)


def _plain(x):
    if isinstance(x, Sink):
        return "SINK"
    if isinstance(x, (list, tuple)):
        return [_plain(v) for v in x]
    if x is None or isinstance(x, (bool, int, str, float)):
        return x
    return "<%s>" % type(x).__name__


def _method(name):
    def method(self, *args):
        self.log.append((name, _plain(args)))
        if name == "__iter__":
            return iter([("it", 0), ("it", 1)])
        if name == "fill_into" and len(args) == 2 and isinstance(args[0], Sink):
            args[0].fill(("filled_into", _plain(args[1])))
            return None
        if name == "run" and len(args) == 1 and hasattr(args[0], "__next__"):
            return [("ran", _plain(v)) for v in args[0]]
        return [(name + "-result", _plain(args))]
    method.__name__ = name
    return method


_CLASSES = {}


def make_element(states, falsy=False):
    """A fresh instance of a fresh class with the attributes given by *states* (one per NAMES).
    With *falsy* the element is false in a boolean context (like an element derived from a container
    that is empty when the adapter is made): an element is an object, whatever its truth value."""
    if falsy:
        cls = _CLASSES.get(("falsy",) + tuple(states))
        if cls is None:
            base = make_element(states).__class__
            cls = type("FalsyKind", (base,), {"__bool__": lambda self: False})
            _CLASSES[("falsy",) + tuple(states)] = cls
        el = cls()
        el.log = []
        return el
    cls = _CLASSES.get(tuple(states))
    if cls is not None:
        el = cls()
        el.log = []
        return el
    attrs = {}
    for name, st in zip(NAMES, states):
        if st == 0:
            continue
        if name == "_can_break_flow":
            # only the presence of this attribute is documented to matter
            attrs[name] = (st == 1)
        elif st == 1:
            attrs[name] = _method(name)
        else:
            attrs[name] = 5
    cls = type("Kind", (object,), attrs)
    _CLASSES[tuple(states)] = cls       # classes carry no state; every element is a fresh instance
    el = cls()
    el.log = []
    return el


def gen_function(flow):
    for val in flow:
        yield ("gen", val)


def list_function(flow):
    return [("fun", val) for val in flow]


_OBJECTS = {
    "None": lambda: None,
    "int": lambda: 5,
    "str": lambda: "ab",
    "list": lambda: [1, 2],
    "tuple": lambda: (1, 2),
    "dict": lambda: {"k": 1},
    "range": lambda: range(3),
    "iterator": lambda: iter([1, 2]),
    "object": lambda: object(),
    "abs": lambda: abs,
    "lambda": lambda: (lambda *a: ("lam", _plain(a))),
    "class_int": lambda: int,
    "Sum": lambda: __import__("lena.math").math.Sum(),
    "Count": lambda: __import__("lena.flow").flow.Count(),
    "Filter": lambda: __import__("lena.flow").flow.Filter(lambda v: v % 2 == 0),
    "Slice(1,3)": lambda: __import__("lena.flow").flow.Slice(1, 3),
    "RunIf": lambda: __import__("lena.flow").flow.RunIf(lambda v: v % 2 == 0, lambda v: v + 10),
    "Reverse": lambda: __import__("lena.flow").flow.Reverse(),
    "StoreFilled": lambda: __import__("lena.flow").flow.StoreFilled(),
    "Variable": lambda: __import__("lena.variables").variables.Variable("dbl", lambda d: d * 2),
    "CountFrom": lambda: __import__("lena.flow").flow.CountFrom(0, 1),
    "FillRequest(Sum)": lambda: lena.core.FillRequest(__import__("lena.math").math.Sum(), reset=True,
                                                      buffer_input=True),
    "Sequence(abs)": lambda: lena.core.Sequence(abs),
    "Sequence()": lambda: lena.core.Sequence(),          # an empty sequence has length 0
    "FillComputeSeq(abs,Sum)": lambda: lena.core.FillComputeSeq(abs, __import__("lena.math").math.Sum()),
}
OBJECT_NAMES = sorted(_OBJECTS)
# method names tried on the real objects besides the default (attributes of some of them)
OBJECT_NAME_ARGS = [DEFAULT, MISSING, "run", "fill", "compute", "request", "fill_into", "__call__",
                    "count", "group", "reset", "bufsize"]


def make_object(name):
    return _OBJECTS[name]()


def make(elspec):
    """A fresh element for a JSON-able element spec: a list of states or the name of a real object."""
    if isinstance(elspec, str):
        return make_object(elspec)
    if isinstance(elspec, dict):
        return make_element(elspec["states"], falsy=elspec.get("falsy", False))
    return make_element(elspec)


# ---------------------------------------------------------------------------------------------------
# the reference model (from the docstrings)

def _has_method(el, name):
    return callable(getattr(el, name, None))


def _is_fill_compute(el):
    return _has_method(el, "fill") and _has_method(el, "compute")


def expected(adapter, el, args):
    """Readings of the docstring for adapter(el, **args). *args* maps the adapter's method-name
    keyword(s) to a name, DEFAULT meaning "not passed". For Run the special value ("function", f)
    means Run(None, run=f)."""
    if adapter == "Sequence":
        # "*args* are objects which implement a method run(flow) or callables ... see Run": an element of
        # a Sequence is what Run(el) accepts, and means what Run(el) means
        return expected("Run", el, {"run": DEFAULT})
    if adapter in ("Call", "SourceEl"):
        name = args["call"]
        if name != DEFAULT:
            return [("accept", "named")] if _has_method(el, name) else [("reject",)]
        readings = []
        if callable(el):
            readings.append(("accept", "callable"))
        if adapter == "SourceEl":
            # "el must be callable or iterable": which one is used when both hold is not stated;
            # an object with a non-callable __iter__ attribute is iterable for hasattr and not for iter()
            it = getattr(el, "__iter__", None)
            if it is not None:
                readings.append(("accept", "iterable"))
                if not callable(it) and not callable(el):
                    readings.append(("reject",))
        return readings or [("reject",)]

    if adapter == "Run":
        name = args["run"]
        if name != DEFAULT:
            if el is None:
                # "Run(None, run=<my_function>)"
                if callable(name):
                    return [("accept", "function")]
                return [("reject",), ("accept", "function")]
            return [("accept", "named")] if _has_method(el, name) else [("reject",)]
        if _has_method(el, "run"):
            return [("accept", "run")]
        # "If that is not found, a type cast is attempted. A Run element can be initialized from a
        # Call or a FillCompute element." (no precedence stated between the two)
        readings = []
        if callable(el):
            readings.append(("accept", "callable"))
        if _is_fill_compute(el):
            readings.append(("accept", "fill_compute"))
        return readings or [("reject",)]

    if adapter == "FillCompute":
        fill = "fill" if args["fill"] == DEFAULT else args["fill"]
        compute = "compute" if args["compute"] == DEFAULT else args["compute"]
        if not _has_method(el, fill):
            return [("reject",)]
        if _has_method(el, compute):
            return [("accept", "compute")]
        if _has_method(el, "request"):
            return [("accept", "request")]
        return [("reject",)]

    if adapter == "FillInto":
        name = args["fill_into"]
        if name != DEFAULT:
            return [("accept", "named")] if _has_method(el, name) else [("reject",)]
        # "fill_into method is searched, then __call__, then run"
        if _has_method(el, "fill_into"):
            return [("accept", "fill_into")]
        if callable(el):
            if isinstance(el, lena.core.Split):
                # a Split defines __call__() without a value; whether that makes it "callable" in the
                # docstring's sense (a function of one value) is not decided
                return [("reject",), ("accept", "callable")]
            return [("accept", "callable")]
        if _has_method(el, "run") and hasattr(el, "_can_break_flow"):
            return [("accept", "run")]
        return [("reject",)]

    raise ValueError(adapter)


# ---------------------------------------------------------------------------------------------------
# driving the adapter and its twin with the same canned input

CANNED_FLOW = [1, 2]


def _consume(x):
    """Materialise whatever a run / compute / source call returned."""
    if isinstance(x, (list, tuple)):
        return _plain(list(x))
    if hasattr(x, "__iter__") and not isinstance(x, (str, dict)):
        out = []
        for i, v in enumerate(x):
            out.append(_plain_result(v))
            if i >= 5:          # CountFrom is endless
                break
        return out
    return _plain_result(x)


def _plain_result(x):
    """Plain form of a result; real lena results (numbers, pairs with context) are kept by value."""
    if isinstance(x, Sink):
        return "SINK"
    if isinstance(x, (list, tuple)):
        return [_plain_result(v) for v in x]
    if isinstance(x, dict):
        return {str(k): _plain_result(v) for k, v in sorted(x.items(), key=repr)}
    if x is None or isinstance(x, (bool, int, str, float)):
        return x
    return "<%s>" % type(x).__name__


def _log(el):
    return list(getattr(el, "log", []))


def _guard(thunk, el):
    try:
        return ("ok", thunk(), _log(el))
    except Exception as e:  # compared by type only
        return ("exc", type(e).__name__, _log(el))


FUNCTIONS = {"@gen_function": gen_function, "@list_function": list_function}


def resolve(args):
    """Method-name arguments as passed to lena: "@name" stands for one of the functions above."""
    return {k: FUNCTIONS.get(v, v) if isinstance(v, str) else v for k, v in args.items()}


def construct(adapter, el, args):
    """("ok", adapter object) or ("exc", exception type name)."""
    cls = getattr(lena.core, adapter)
    kw = {}
    for k, v in args.items():
        if v != DEFAULT:
            kw[k] = v
    try:
        return ("ok", cls(el, **kw))
    except Exception as e:
        return ("exc", type(e).__name__)


def exercise(adapter, A, el):
    """Use the adapter's public method(s) on the canned input."""
    if adapter == "Call":
        return _guard(lambda: _plain_result(A(7)), el)
    if adapter == "SourceEl":
        return _guard(lambda: _consume(A()), el)
    if adapter in ("Run", "Sequence"):
        return _guard(lambda: _consume(A.run(iter(list(CANNED_FLOW)))), el)
    if adapter == "FillCompute":
        return _guard(lambda: [_plain_result(A.fill(7)), _plain_result(A.fill(8)),
                               _consume(A.compute())], el)
    if adapter == "FillInto":
        def thunk():
            sink = Sink()
            r = A.fill_into(sink, 7)
            return [_plain_result(r), _plain_result(sink.got)]
        return _guard(thunk, el)
    raise ValueError(adapter)


def direct(adapter, rule, twin, args):
    """What the docstring says the accepted adapter does, performed on the twin element."""
    if adapter == "Sequence":
        return direct("Run", rule, twin, {"run": DEFAULT})
    if adapter == "Call":
        f = twin if rule == "callable" else getattr(twin, args["call"])
        return _guard(lambda: _plain_result(f(7)), twin)
    if adapter == "SourceEl":
        if rule == "iterable":
            return _guard(lambda: _consume(twin), twin)
        f = twin if rule == "callable" else getattr(twin, args["call"])
        return _guard(lambda: _consume(f()), twin)
    if adapter == "Run":
        flow = iter(list(CANNED_FLOW))
        if rule == "run":
            return _guard(lambda: _consume(twin.run(flow)), twin)
        if rule == "named":
            return _guard(lambda: _consume(getattr(twin, args["run"])(flow)), twin)
        if rule == "function":
            return _guard(lambda: _consume(args["run"](flow)), twin)
        if rule == "callable":
            return _guard(lambda: [_plain_result(twin(v)) for v in flow], twin)
        if rule == "fill_compute":
            def thunk():
                for v in flow:
                    twin.fill(v)
                return _consume(twin.compute())
            return _guard(thunk, twin)
    if adapter == "FillCompute":
        fill = "fill" if args["fill"] == DEFAULT else args["fill"]
        compute = "compute" if args["compute"] == DEFAULT else args["compute"]
        if rule == "request":
            compute = "request"

        def thunk():
            f = getattr(twin, fill)
            return [_plain_result(f(7)), _plain_result(f(8)), _consume(getattr(twin, compute)())]
        return _guard(thunk, twin)
    if adapter == "FillInto":
        def thunk():
            sink = Sink()
            r = None
            if rule == "fill_into":
                r = twin.fill_into(sink, 7)
            elif rule == "named":
                r = getattr(twin, args["fill_into"])(sink, 7)
            elif rule == "callable":
                sink.fill(twin(7))
            elif rule == "run":
                for res in twin.run([7]):
                    sink.fill(res)
            return [_plain_result(r), _plain_result(sink.got)]
        return _guard(thunk, twin)
    raise ValueError((adapter, rule))


def arg_lists(adapter, names):
    """All method-name argument dictionaries of *adapter* over *names*."""
    if adapter in ("Call", "SourceEl"):
        return [{"call": n} for n in names]
    if adapter == "Run":
        return [{"run": n} for n in names]
    if adapter == "Sequence":
        return [{}]
    if adapter == "FillInto":
        return [{"fill_into": n} for n in names]
    if adapter == "FillCompute":
        return [{"fill": f, "compute": c} for f in names for c in names]
    raise ValueError(adapter)


def judge(adapter, elspec, args):
    """Judge one construction. Returns a dict:
    verdict "holds" | "construct" | "meaning"; readings; observed; expected (for the report)."""
    args = resolve(args)
    readings = expected(adapter, make(elspec), args)
    el = make(elspec)
    built = construct(adapter, el, args)
    may_reject = ("reject",) in readings
    accepts = [r[1] for r in readings if r[0] == "accept"]
    out = {"readings": [list(r) for r in readings], "ambiguous": len(readings) > 1}
    if built[0] == "exc":
        out["observed"] = "raised " + built[1]
        out["accepted"] = False
        if built[1] == "LenaTypeError" and may_reject:
            out["verdict"] = "holds"
        else:
            out["verdict"] = "construct"
            out["expected"] = ("construction succeeds" if not may_reject else "LenaTypeError")
        return out
    out["accepted"] = True
    if not accepts:
        out["verdict"] = "construct"
        out["observed"] = "constructed"
        out["expected"] = "LenaTypeError"
        return out
    got = exercise(adapter, built[1], el)
    wanted = []
    for rule in accepts:
        w = direct(adapter, rule, make(elspec), args)
        wanted.append(w)
        if w == got:
            out["verdict"] = "holds"
            out["rule"] = rule
            out["observed"] = got
            return out
    out["verdict"] = "meaning"
    out["rule"] = accepts[0]
    out["observed"] = got
    out["expected"] = wanted
    return out
