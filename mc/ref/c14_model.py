"""Reference model for C14 (variables compose like functions and keep each variable's description).

Nothing here imports lena. A variable is described by a JSON-able *spec*:

    ["V", i, p]                    plain variable number i with attribute profile p
    ["Compose", [spec, ...], kw]   composition, kw = keyword arguments (name and extra attributes)
    ["Combine", [spec, ...], kw]   tuple variable, kw may hold name, type and extra attributes
    ["N", i, p]                    plain variable number i with a numeric getter x -> a_i * x + b_i
    ["P", i, p]                    plain variable number i with a PARTIAL getter: x -> (i, x) for all data
                                   except the data outside_domain(i) (however deep the earlier getters of
                                   a chain have wrapped them), for which it raises
    ["Abs", spec, kw]              lena.variables.abs(variable of spec, **kw), kw holds latex_name and
                                   may hold name

The model is written from the docstrings of lena/variables/variable.py and the property statement:

  * getter of V i is x -> (i, x); of a Compose the getters applied left to right; of a Combine the tuple
    of the items' getter results;
  * the description of a variable is its name, its type, its top-level attributes and the *chain* of
    (type, attributes kept under that type) of the typed variables it was composed from, in
    application order;
  * applying variables one after another to a value whose context.variable was P gives a
    context.variable that must CONTAIN (`Sub`: subset match, extra keys are tolerated): the name, the
    attributes and the type of the last variable; under every type of (chain of P) + (chains of the
    variables) the attributes recorded for it; and compose == that list of types (a chain of fewer
    than two types may also have no compose key at all);
  * from the docstring of lena.variables.functions.abs: abs(var, latex_name=l) is a variable whose data
    is the absolute value of var's data, named "abs_" + var.name unless a name is given, with the given
    latex_name; it is a variable "of the same kind" (type and other attributes of var), so inside a chain
    it stands where var would stand, described by its own name and attributes;
  * a variable is a function of the value it is given: what it gives for x does not depend on the values
    it was applied to before, in particular not on values outside the domain of one of its getters (the
    getter raised, the caller caught the exception and went on with the next value);
  * a value is a (data, context) pair exactly when it is a tuple (or an instance of a subclass of tuple)
    of length 2 whose second item is a dictionary (or an instance of a subclass of dict) - the
    convention of lena.flow.get_data_context; every other value is data without context.
"""
import copy

DATA = 7

TYPES = ("particle", "coordinate", "t.2", "x", "kind")    # one type with a dot: a type is any string
NAMES = ("positron", "x", "n2", "", "x")

# extra attributes ("arbitrary"): none / falsy scalars and a list / a nested mutable structure / one string
PROFILES = (
    {},
    {"unit": "mm", "latex_name": "", "range": [0, 1], "zero": 0},
    {"opt": {"k": [1, {"z": None}]}, "flag": False},
    {"unit": "cm"},
    {"unit": "m", "latex_name": "x_m", "range": [0, 1]},
    # attributes named like the methods and markers that lena.core looks up on the elements of a sequence
    # (adapters.Run / FillCompute / FillRequest / FillInto, check_sequence_type, LenaSequence, Split);
    # the values are data (never callable): truthy, falsy, and the private marker names
    {"run": 1234, "fill": "f", "compute": [1], "request": {"n": 1}, "fill_into": 2.5, "reset": True},
    {"run": 0, "fill": "", "compute": None, "request": [], "fill_into": False, "reset": {}},
    {"_has_no_data": 1, "_get_context": "g", "_set_context": [0], "_repr_nested": 0,
     "_can_break_flow": True},
)
FUNCTION_PROFILES = 5            # the profiles of the group functions (and of everything older)
NAME_PROFILES = (5, 6, 7)        # the profiles of the group attribute-names

# numeric getters x -> a * x + b of the "N" leaves: they do not commute and change the sign of 7
AFFINE = ((-2, 3), (3, -40), (-1, -5), (2, -9), (5, 1))

# kinds of data ("int" is the data of all the other groups)
DATA_KINDS = ("int", "none", "zero", "empty-tuple", "pair-like", "dict")


def data_value(kind):
    """A fresh data value. "pair-like" is data that itself looks like a (data, context) pair, "dict" is
    data that looks like a context."""
    if kind == "int":
        return DATA
    if kind == "none":
        return None
    if kind == "zero":
        return 0
    if kind == "empty-tuple":
        return ()
    if kind == "pair-like":
        return (DATA, {"inner": [1]})
    if kind == "dict":
        return {"variable": {"name": "d", "type": "td", "td": {"name": "d"}}, "k": [0]}
    if kind == "other-int":
        return DATA + 1
    if kind.startswith(OUTSIDE):
        return kind                 # the marker itself: data outside the domain of one "P" getter
    raise ValueError(kind)


OUTSIDE = "outside-domain-of-"


def outside_domain(i):
    """Kind (and value) of the data for which the getter of the partial variable number i raises."""
    return OUTSIDE + str(i)


def innermost(x):
    """The data the first getter of a chain was given, seen through the pairs (i, x) of the getters."""
    while type(x) is tuple and len(x) == 2 and type(x[0]) is int:
        x = x[1]
    return x

VALUE_FORMS = ("bare", "empty", "plain", "untyped-variable", "typed-variable", "composed-variable",
               "empty-variable",
               # the value has already passed the first variable of the chain (built by the check from
               # that variable's own context)
               "as-first")


def value(form):
    """A fresh input value of the given form (equal for equal forms, never shared)."""
    if form == "bare":
        return DATA
    if form == "empty":
        return (DATA, {})
    other = {"a": {"b": [1, 2]}, "z": 0}
    if form == "plain":
        return (DATA, other)
    if form == "untyped-variable":
        other["variable"] = {"name": "old", "unit": "u", "opt": {"q": [0]}}
    elif form == "typed-variable":
        other["variable"] = {"name": "old", "unit": "u", "type": "told",
                             "told": {"name": "old", "unit": "u"}}
    elif form == "composed-variable":
        other["variable"] = {"name": "o2", "range": [0, 5], "type": "to2",
                             "to2": {"name": "o2", "range": [0, 5]},
                             "to1": {"name": "o1", "latex_name": ""},
                             "compose": ["to1", "to2"]}
    elif form == "empty-variable":
        other["variable"] = {}
    else:
        raise ValueError(form)
    return (DATA, other)


def split_value(v):
    """(data, context) as the documented get_data_context convention reads a value of these forms."""
    if isinstance(v, tuple) and len(v) == 2 and isinstance(v[1], dict):
        return v[0], v[1]
    return v, {}


class Sub(object):
    """A required dictionary: every listed key must be present with a matching value."""

    def __init__(self, d):
        self.d = d

    def __repr__(self):
        return "Sub(%r)" % (self.d,)


class ComposeIs(object):
    """Required value of the compose key: exactly this list (absent allowed for < 2 types)."""

    def __init__(self, types):
        self.types = list(types)

    def __repr__(self):
        return "ComposeIs(%r)" % (self.types,)


MISSING = object()


def plain(req):
    """JSON-able rendering of a requirement (for violation reports)."""
    if isinstance(req, Sub):
        return {k: plain(v) for k, v in req.d.items()}
    if isinstance(req, ComposeIs):
        return req.types
    if isinstance(req, tuple):
        return [plain(v) for v in req]
    return req


def _same(a, b):
    """Deep equality that tells list from tuple and bool from int."""
    if type(a) is not type(b):
        return False
    if isinstance(a, dict):
        return set(a) == set(b) and all(_same(a[k], b[k]) for k in a)
    if isinstance(a, (list, tuple)):
        return len(a) == len(b) and all(_same(x, y) for x, y in zip(a, b))
    return a == b


same = _same


def match(actual, req, path=(), exact=False):
    """Paths (tuples of keys) at which *actual* does not satisfy *req*, as (path, problem)."""
    out = []
    if isinstance(req, Sub):
        if not isinstance(actual, dict):
            return [(path, "not-a-dict")]
        for k in sorted(req.d):
            r = req.d[k]
            a = actual.get(k, MISSING)
            if isinstance(r, ComposeIs):
                if a is MISSING:
                    if len(r.types) >= 2:
                        out.append((path + (k,), "missing"))
                elif not _same(a, r.types):
                    out.append((path + (k,), "differs"))
            elif a is MISSING:
                out.append((path + (k,), "missing"))
            else:
                out.extend(match(a, r, path + (k,), exact))
        if exact:
            for k in sorted(set(actual) - set(req.d), key=repr):
                out.append((path + (k,), "extra"))
        return out
    if isinstance(req, tuple) and any(isinstance(r, Sub) for r in req):
        if not isinstance(actual, tuple) or len(actual) != len(req):
            return [(path, "not-a-tuple-of-%d" % len(req))]
        for i, (a, r) in enumerate(zip(actual, req)):
            out.extend(match(a, r, path + (i,), exact))
        return out
    if not _same(actual, req):
        out.append((path, "differs"))
    return out


# -- descriptions --------------------------------------------------------------------------------

LEAF_KINDS = ("V", "N", "P")


def leaf_fields(spec):
    _, i, p = spec
    return NAMES[i], TYPES[i], copy.deepcopy(PROFILES[p])


def children(spec):
    kind = spec[0]
    if kind in LEAF_KINDS:
        return []
    if kind == "Abs":
        return [spec[1]]
    return list(spec[1])


def skeleton(spec):
    """Shape of a spec without numbers and profiles: "Abs[latex_name](Compose(N,N))"."""
    kind = spec[0]
    if kind in LEAF_KINDS:
        return kind
    kw = spec[2] if len(spec) > 2 and spec[2] else {}
    return "%s%s(%s)" % (kind, "[%s]" % ",".join(sorted(kw)) if kw else "",
                         ",".join(skeleton(s) for s in children(spec)))


def function_kinds(items):
    """Sorted names of the functions of lena.variables.functions used anywhere in the items."""
    out = set()

    def walk(s):
        if s[0] == "Abs":
            out.add("abs")
        for c in children(s):
            walk(c)
    for s in items:
        walk(s)
    return sorted(out)


def _retyped(d, name, top):
    """Description of a variable made from the variable described by d: it stands where that variable
    stood (same type, same earlier chain) and is described by its own name and attributes."""
    chain = list(d["chain"])
    if d["type"]:
        sub = dict(top)
        sub["name"] = name
        assert chain and chain[-1][0] == d["type"]
        chain[-1] = (d["type"], Sub(sub))
    return {"name": name, "type": d["type"], "top": top, "chain": chain}


def describe(spec):
    """{"name", "type" (or None), "top": attributes required at top level, "chain": [(type, Sub)]}"""
    kind = spec[0]
    if kind in LEAF_KINDS:
        name, typ, attrs = leaf_fields(spec)
        sub = dict(attrs)
        sub["name"] = name
        return {"name": name, "type": typ, "top": attrs, "chain": [(typ, Sub(sub))]}
    if kind == "Abs":
        d = describe(spec[1])
        kw = spec[2] if len(spec) > 2 and spec[2] else {}
        name = kw["name"] if "name" in kw else "abs_" + d["name"]
        top = copy.deepcopy(d["top"])
        top["latex_name"] = kw["latex_name"]       # always given in this alphabet
        return _retyped(d, name, top)
    items = [describe(s) for s in spec[1]]
    kw = copy.deepcopy(spec[2]) if len(spec) > 2 and spec[2] else {}
    if kind == "Compose":
        last = items[-1]
        name = kw.pop("name") if "name" in kw else last["name"]
        top = dict(last["top"])
        top.update(kw)
        chain = [c for d in items for c in d["chain"]]
        return {"name": name, "type": last["type"], "top": top, "chain": chain}
    if kind == "Combine":
        name = kw.pop("name") if "name" in kw else "_".join(d["name"] for d in items)
        typ = kw.pop("type", None)
        top = dict(kw)
        top["dim"] = len(items)
        top["combine"] = tuple(own_context(d) for d in items)
        chain = []
        if typ:
            sub = dict(top)
            sub["name"] = name
            chain = [(typ, Sub(sub))]
        return {"name": name, "type": typ, "top": top, "chain": chain}
    raise ValueError(kind)


def _result(name, typ, top, chain):
    d = {"name": name}
    d.update(top)
    if typ:
        d["type"] = typ
    for t, sub in chain:
        if sub is not None:
            d[t] = sub
    d["compose"] = ComposeIs([t for t, _ in chain])
    return Sub(d)


def own_context(desc):
    """What the variable's own context (var_context) must contain."""
    return _result(desc["name"], desc["type"], desc["top"], desc["chain"])


def prior_chain(pre):
    """The (type, attributes) chain a pre-existing context.variable already carries."""
    if not isinstance(pre, dict) or "type" not in pre:
        return []      # untyped: documented as lost after composition
    types = pre["compose"] if "compose" in pre else [pre["type"]]
    return [(t, Sub(copy.deepcopy(pre[t])) if t in pre else None) for t in types]


def required_result(pre, descs):
    """(Sub that context.variable must satisfy, set of type keys) after applying the variables
    described by *descs* in order to a value whose context.variable was *pre* (or None)."""
    chain = prior_chain(pre) + [c for d in descs for c in d["chain"]]
    last = descs[-1]
    return (_result(last["name"], last["type"], last["top"], chain), set(t for t, _ in chain))


def getter(spec):
    kind = spec[0]
    if kind in ("V", "P"):          # "P": on its domain (the model is never asked outside of it)
        i = spec[1]
        return lambda x: (i, x)
    if kind == "N":
        a, b = AFFINE[spec[1]]
        return lambda x: a * x + b
    if kind == "Abs":
        g0 = getter(spec[1])
        return lambda x: abs(g0(x))
    gs = [getter(s) for s in spec[1]]
    if kind == "Compose":
        def g(x):
            for f in gs:
                x = f(x)
            return x
        return g
    return lambda x: tuple(f(x) for f in gs)


def expected_data(items, x):
    for s in items:
        x = getter(s)(x)
    return x


def role(key, types):
    if key in ("name", "type", "compose", "combine"):
        return key
    if key in types:
        return "type-subcontext"
    return "attribute"


# -- spec helpers ----------------------------------------------------------------------------------

def leaves(spec):
    """Leaf specs reachable through Compose only (a Combine is opaque: it cannot be flattened)."""
    if spec[0] == "Compose":
        return [l for s in spec[1] for l in leaves(s)]
    return [spec]


def all_leaves(spec):
    """Leaf specs of a spec in the order of their getters (through Compose, Combine and Abs)."""
    if spec[0] in LEAF_KINDS:
        return [spec]
    return [l for s in children(spec) for l in all_leaves(s)]


def chain_types(spec):
    """Types a spec contributes to a chain."""
    return [t for t, _ in describe(spec)["chain"]]


def has_kind(spec, kind):
    if spec[0] == kind:
        return True
    return any(has_kind(s, kind) for s in children(spec))


def partitions(seq, min_parts=1):
    """Contiguous partitions of seq into at least min_parts non-empty groups, deterministic order."""
    n = len(seq)
    out = []
    for mask in range(1 << (n - 1)) if n else []:
        groups, cur = [], [seq[0]]
        for i in range(1, n):
            if mask >> (i - 1) & 1:
                groups.append(cur)
                cur = [seq[i]]
            else:
                cur.append(seq[i])
        groups.append(cur)
        if len(groups) >= min_parts:
            out.append(groups)
    out.sort(key=lambda g: (-len(g), [len(x) for x in g]))
    return out


def _subtrees(group):
    if len(group) == 1:
        return [group[0]]
    out = []
    for parts in partitions(group, 2):
        for combo in _product([_subtrees(g) for g in parts]):
            out.append(["Compose", list(combo), {}])
    return out


def _product(lists):
    out = [[]]
    for l in lists:
        out = [o + [x] for o in out for x in l]
    return out


def bracketings(leaf_specs):
    """All lists of items (leaves and nested Compose specs, any depth) whose leaves read left to right
    are leaf_specs; the flat list itself is excluded."""
    out = []
    for parts in partitions(list(leaf_specs), 1):
        if all(len(g) == 1 for g in parts):
            continue
        for combo in _product([_subtrees(g) for g in parts]):
            out.append(list(combo))
    return out
