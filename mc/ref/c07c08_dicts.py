"""Reference model of the nested-dictionary algebra (C07) and small shared helpers (C07, C08).

Everything here is written from the property statement and the docstrings of
lena.context.functions; nothing imports lena.

Vocabulary
----------
A *nested dictionary* has string keys and values that are either nested dictionaries or leaves
(anything that is not a dict; lists are leaves). ``x`` is *contained* in ``D`` when every key of x
is a key of D and the two values are equal or are both dictionaries with x[k] contained in D[k]
(so the empty dictionary is contained in every dictionary). Values are compared with Python's
``==`` (that is also what "equal dictionaries" means in the docstrings).

``level`` is lena's recursion limit: the comparison looks at most *level* levels of keys deep and
treats whatever sits below as one atomic value (level 0: the whole dictionaries are atomic;
negative: unlimited).
"""
import itertools


def isdict(x):
    return isinstance(x, dict)


def fresh(x):
    """A structurally equal value that shares no mutable container with *x*."""
    if type(x) is dict:
        return {k: fresh(v) for k, v in x.items()}
    if type(x) is list:
        return [fresh(v) for v in x]
    return x


def aliased(x):
    """(a structurally equal value in which equal non-empty dictionaries are one and the same object -
    as when a user puts one settings dictionary under two keys -, number of places that share)."""
    pool = {}
    shared = [0]

    def build(v):
        if type(v) is dict:
            if v:
                key = repr(tfreeze(v))
                if key in pool:
                    shared[0] += 1
                    return pool[key]
            out = {k: build(w) for k, w in v.items()}
            if v:
                pool[key] = out
            return out
        if type(v) is list:
            return [build(w) for w in v]
        return v
    if type(x) is dict:
        res = {k: build(w) for k, w in x.items()}
    else:
        res = build(x)
    return res, shared[0]


def tfreeze(x, _stack=()):
    """Canonical hashable form that keeps types apart (0 is not False) and ignores key order.
    A container that contains itself (possible only when the code under test aliased instead of
    copying) is cut with a ("cycle",) marker, so that such a result is *compared* and reported as
    a difference instead of crashing the harness."""
    if type(x) is dict:
        if id(x) in _stack:
            return ("cycle",)
        st = _stack + (id(x),)
        return ("d",) + tuple(sorted((k, tfreeze(v, st)) for k, v in x.items()))
    if type(x) is list:
        if id(x) in _stack:
            return ("cycle",)
        st = _stack + (id(x),)
        return ("l",) + tuple(tfreeze(v, st) for v in x)
    return (type(x).__name__, x)


def containers(x, acc=None):
    """id -> object for every dict and list reachable from x (x included)."""
    if acc is None:
        acc = {}
    if id(x) in acc:
        return acc
    if type(x) is dict:
        acc[id(x)] = x
        for v in x.values():
            containers(v, acc)
    elif type(x) is list:
        acc[id(x)] = x
        for v in x:
            containers(v, acc)
    return acc


def size(x):
    """Number of nodes (used to order families simplest first)."""
    if type(x) is dict:
        return 1 + sum(size(v) for v in x.values())
    return 1


def depth(x):
    if type(x) is dict:
        return 1 + max([depth(v) for v in x.values()] or [0])
    return 0


# -- families -------------------------------------------------------------------------------------

_ABSENT = object()


def family(keys_by_depth, leaves):
    """All nested dictionaries whose top level uses keys_by_depth[0], the next level
    keys_by_depth[1] ... (so depth <= len(keys_by_depth)), every value being absent, one of
    *leaves* or a dictionary of the remaining depth. Sorted simplest first; prototypes must be
    copied with fresh() before they are handed to the code under test."""
    def dicts(level):
        keys = keys_by_depth[level]
        if level + 1 < len(keys_by_depth):
            subs = dicts(level + 1)
        else:
            subs = []
        vals = [_ABSENT] + list(leaves) + subs
        out = []
        for combo in itertools.product(vals, repeat=len(keys)):
            out.append({k: v for k, v in zip(keys, combo) if v is not _ABSENT})
        return out
    fam = dicts(0)
    # the empty dictionary given as a leaf duplicates the empty sub-dictionary
    seen, uniq = set(), []
    for d in fam:
        f = tfreeze(d)
        if f not in seen:
            seen.add(f)
            uniq.append(d)
    uniq.sort(key=lambda d: (size(d), repr(tfreeze(d))))
    return uniq


# -- containment, greatest lower bound, difference, merge ---------------------------------------

def contained(x, D, level=-1):
    """x is contained in D, looking at most *level* levels of keys deep."""
    if level == 0:
        return x == D or x == {}
    for k, v in x.items():
        if k not in D:
            return False
        w = D[k]
        if v == w:
            continue
        if level != 1 and isdict(v) and isdict(w) and contained(v, w, level - 1):
            continue
        return False
    return True


def glb(dicts, level=-1):
    """Greatest nested dictionary contained in every one of *dicts* (a new object)."""
    if not dicts:
        return {}
    first = dicts[0]
    if level == 0:
        return fresh(first) if all(d == first for d in dicts[1:]) else {}
    out = {}
    for k, v in first.items():
        if not all(k in d for d in dicts[1:]):
            continue
        vals = [d[k] for d in dicts]
        if all(w == v for w in vals[1:]):
            out[k] = fresh(v)
        elif level != 1 and all(isdict(w) for w in vals):
            out[k] = glb(vals, level - 1)
    return out


def diff(d1, d2, level=-1):
    """The items of d1 that are not contained in d2 (recursive formulation)."""
    if level == 0:
        return {} if d1 == d2 else fresh(d1)
    out = {}
    for k, v in d1.items():
        if k not in d2:
            out[k] = fresh(v)
            continue
        w = d2[k]
        if v == w:
            continue
        if level != 1 and isdict(v) and isdict(w):
            sub = diff(v, w, level - 1)
            if sub:  # empty: every item of v is contained in w
                out[k] = sub
        else:
            out[k] = fresh(v)
    return out


def atoms(d, level=-1, prefix=()):
    """(path, value) of everything in d that the comparison treats as one item: leaves, empty
    dictionaries, and dictionaries that sit *level* keys deep."""
    for k, v in d.items():
        p = prefix + (k,)
        if isdict(v) and v and (level < 0 or len(p) < level):
            for a in atoms(v, level, p):
                yield a
        else:
            yield p, v


def atom_contained(p, v, D, level=-1):
    cur = D
    for k in p[:-1]:
        if not isdict(cur) or k not in cur:
            return False
        cur = cur[k]
    if not isdict(cur) or p[-1] not in cur:
        return False
    w = cur[p[-1]]
    if v == w:
        return True
    # an empty dictionary is contained in any dictionary the comparison may still open
    return v == {} and isdict(w) and (level < 0 or len(p) < level)


def diff_by_atoms(d1, d2, level=-1):
    """Independent (path-set) formulation of diff(), used to cross-check the recursive one."""
    if level == 0:
        return {} if d1 == d2 else fresh(d1)
    out = {}
    for p, v in atoms(d1, level):
        if atom_contained(p, v, d2, level):
            continue
        cur = out
        for k in p[:-1]:
            cur = cur.setdefault(k, {})
        cur[p[-1]] = fresh(v)
    return out


def merge(d, other):
    """What update_recursively(d, other) must leave in d: other wins, dictionaries are merged."""
    out = {k: fresh(v) for k, v in d.items()}
    for k, v in other.items():
        if isdict(v) and k in out:
            out[k] = merge(out[k] if isdict(out[k]) else {}, v)
        else:
            out[k] = fresh(v)
    return out


def first_difference(got, exp, path=()):
    """First (sorted by key) place where two nested values differ:
    (path, kind) with kind in 'missing' (exp has it, got has not), 'extra', 'different'."""
    if isdict(got) and isdict(exp):
        for k in sorted(set(got) | set(exp)):
            if k not in got:
                return path + (k,), "missing"
            if k not in exp:
                return path + (k,), "extra"
            if got[k] != exp[k]:
                r = first_difference(got[k], exp[k], path + (k,))
                if r is not None:
                    return r
        return None
    if got != exp:
        return path, "different"
    return None


def lookup(d, path, default=None):
    cur = d
    for k in path:
        if not isdict(cur) or k not in cur:
            return default
        cur = cur[k]
    return cur


def kind(v):
    """Coarse description of a value for cause signatures."""
    if v is _ABSENT:
        return "absent"
    if isdict(v):
        return "dict" if v else "empty-dict"
    if isinstance(v, list):
        return "list" if v else "empty-list"
    return "truthy-scalar" if v else "falsy-scalar"


ABSENT = _ABSENT
