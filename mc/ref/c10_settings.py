"""Settings axis of C10: foreign values that CARRY the settings an element reads.

Every selective element documents context keys that it reads (and keys that it writes) for the values
it selects: ToCSV ``output.duplicate_last_bin`` / ``output.to_csv``, Write ``output.filename`` /
``dirname`` / ``fileext`` / ``filetype`` / ``changed`` / ``filepath`` / ``write``, RenderLaTeX
``output.template`` and the rendered context, LaTeXToPDF and PDFToPNG ``output.changed``, HistToGraph
``histogram.to_graph`` / ``value``, MapBins ``value``, IterateBins ``variable`` / ``bins`` / ``bin``,
MapGroup ``output.changed``, RunIf whatever its selector looks at.  "Not selected values pass
unchanged" and "what they produce for the selected values does not depend on which unselected values
are interleaved" hold in particular when the unselected value has exactly these keys in its context:
the keys mean something for a value the element acts on and nothing for a value it leaves alone.

The axis is a product, enumerated completely:

    carrier   WHY the value is not selected, by the documented selection rule of the element:
              its data has another type (number, string where strings are not selected, bytes, an
              object lena knows nothing about, another structure), its context names another file
              type, its bins are not the selected ones, or its context disables the element
              (output.to_csv / output.write / histogram.to_graph False);
    fragment  WHICH setting it carries: one documented key of the element, with values on both
              sides of the element's own configuration (True and False for a switch) and values
              that are visible if they are ever used (a file name, a template that does not exist).

A value is (data of the carrier, context of the carrier deep-merged with the fragment).  Which value is
selected is decided here from the docstrings, never by running lena.  Nothing in this table depends on
how an element looks a setting up.
"""
import copy

import lena.structures
from lena.structures import histogram, graph

from mc.ref import c10_alphabet as al

PREFIX = "set:"
QUICK_CARRIERS_2 = 2


# ------------------------------------------------------------------------------------------------
# fragments: name -> context fragment, per element
# ------------------------------------------------------------------------------------------------

def _out(**kw):
    return {"output": dict(kw)}


FRAGMENTS = {
    "ToCSV": [
        ("dup_false", _out(duplicate_last_bin=False)),
        ("dup_true", _out(duplicate_last_bin=True)),
        ("to_csv_true", _out(to_csv=True)),
    ],
    "Write": [
        ("filename", _out(filename="leak")),
        ("dirname", _out(dirname="leakdir")),
        ("fileext", _out(fileext="ext")),
        ("filetype", _out(filetype="ftp")),
        ("changed", _out(changed=True)),
        ("filepath", _out(filepath="out/leak.txt")),
        ("write_true", _out(write=True)),
    ],
    "RenderLaTeX": [
        ("template", _out(template="u.tex")),
        ("template_missing", _out(template="missing.tex")),
        ("filepath", _out(filepath="out/leak.csv", filename="leak")),
        ("render_false", {"render": False}),
        ("template_vars", {"a": 7, "x": 8, "y": 9}),
    ],
    "LaTeXToPDF": [
        ("changed_true", _out(changed=True)),
        ("changed_false", _out(changed=False)),
    ],
    "PDFToPNG": [
        ("changed_true", _out(changed=True)),
        ("changed_false", _out(changed=False)),
    ],
    "HistToGraph": [
        ("to_graph_true", {"histogram": {"to_graph": True}}),
        ("value", {"value": {"name": "leak", "k": [1]}}),
        ("variable", {"variable": {"name": "leak"}}),
    ],
    "MapBins": [
        ("value", {"value": {"name": "leak", "k": [1]}}),
        ("variable", {"variable": {"name": "leak"}}),
    ],
    "IterateBins": [
        ("variable", {"variable": {"name": "leak"}}),
        ("bins", {"bins": {"variable": {"name": "leak"}}}),
        ("bin", {"bin": {"edges": [5, 6], "edges_str": "leak"}}),
    ],
    "RunIf": [
        ("sel_false", {"sel": False}),
        ("sel_other", {"sel": {"other": 1}}),
        ("shared_key", {"k": {"m": 2}}),
    ],
    "MapGroup": [
        ("changed_true", _out(changed=True)),
        ("changed_false", _out(changed=False)),
        ("filename", _out(filename="leak")),
    ],
}


# ------------------------------------------------------------------------------------------------
# carriers: name -> (data factory, carrier context, fragments it cannot be combined with)
# ------------------------------------------------------------------------------------------------

def _num():
    return al._fresh_int(20)


def _text():
    return al._fresh_str("0,3\n1,5")


def _obj():
    return al.Foreign("s")


def _h1():
    return histogram([0, 1, 2], [3, 5])


def _graph():
    return graph([[0, 1], [2, 3]])


_TYPE_CARRIERS = [
    ("num", _num, {}, ()),
    ("str", _text, {}, ()),
    ("obj", _obj, {}, ()),
]


def carriers(kind, cfg):
    """The ways in which a value is not selected by an element configuration."""
    if kind == "ToCSV":
        # "Can be converted: histogram (implemented only for 1- and 2-dimensional histograms), any
        # object with a method rows"; "If context.output.to_csv is False, the value is skipped"
        return [
            ("num", _num, {}, ()),
            ("str", _text, _out(filetype="csv"), ()),     # text that was converted already
            ("obj", _obj, {}, ()),
            ("struct", al._h3, {}, ()),                    # 3-dimensional histogram
            ("disabled", _h1, _out(to_csv=False), ("to_csv_true",)),
        ]
    if kind == "Write":
        # "Only strings and objects with a method write are written. If context.output.write is
        # set to False, a value will not be written."
        return [
            ("num", _num, {}, ()),
            ("obj", _obj, {}, ()),
            ("bytes", lambda: bytes(bytearray(b"raw")), {}, ()),
            ("struct", _h1, {}, ()),
            ("disabled", lambda: al._fresh_str("not written"), _out(write=False), ("write_true",)),
        ]
    if kind == "RenderLaTeX":
        # default: "values with context.output.filetype equal to csv are selected"; the configuration
        # env_select selects values whose context has render True
        return _TYPE_CARRIERS + [
            ("other_type", lambda: al._fresh_str("out/x.tex"), _out(filetype="tex"), ()),
        ]
    if kind == "LaTeXToPDF":
        return _TYPE_CARRIERS + [
            ("other_type", lambda: al._fresh_str("out/x.pdf"), _out(filetype="pdf"), ()),
        ]
    if kind == "PDFToPNG":
        return _TYPE_CARRIERS + [
            ("other_type", lambda: al._fresh_str("out/x.tex"), _out(filetype="tex"), ()),
        ]
    if kind == "HistToGraph":
        # "Not histograms or histograms with context.histogram.to_graph set to False pass unchanged"
        return _TYPE_CARRIERS + [
            ("struct", _graph, {}, ()),
            ("disabled", _h1, {"histogram": {"to_graph": False}}, ("to_graph_true",)),
        ]
    if kind == "MapBins":
        out = _TYPE_CARRIERS + [("struct", _graph, {}, ())]
        other = {
            "int": lambda: histogram([0, 1, 2], [1.5, 2.5]),
            "int_last": lambda: histogram([0, 1, 2], [1, 2.5]),   # the first cell is an int
            "vec": _h1,
            "ctxsel": lambda: histogram([0, 1, 2], [(1, {"sel": {"no": 1}}), (2, {"sel": {"no": 1}})]),
        }.get(cfg)
        if other is not None:       # the configuration "all" selects every histogram
            out.append(("other_bins", other, {}, ()))
        return out
    if kind == "IterateBins":
        other = {"default": _h1, "int": lambda: histogram([0, 1, 2], [1.5, 2.5])}[cfg]
        return _TYPE_CARRIERS + [("struct", _graph, {}, ()), ("other_bins", other, {}, ())]
    if kind == "RunIf":
        # every configuration of the alphabet selects on the context key sel or on the type float
        return _TYPE_CARRIERS + [("struct", _h1, {}, ())]
    if kind == "MapGroup":
        # "A value represents a group if its context has a key group and its data part is iterable"
        return [
            ("num", _num, {}, ()),
            ("obj", _obj, {}, ()),
            ("str", _text, {}, ()),                                  # iterable, no group
            ("scalar_group", _num, {"group": [{"a": 1}]}, ()),      # group key, data not iterable
            ("list_no_group", lambda: [1, 2], {"no_group": [{}, {}]}, ()),
        ]
    raise ValueError(kind)


def _merge(base, extra):
    """Deep merge of two nested dictionaries into a new one (extra wins on leaves)."""
    out = copy.deepcopy(base)
    for k, v in extra.items():
        if isinstance(v, dict) and isinstance(out.get(k), dict):
            out[k] = _merge(out[k], v)
        else:
            out[k] = copy.deepcopy(v)
    return out


def pool(kind, cfg, tier="thorough", blen=1):
    """Names of the foreign values of the settings axis of an element configuration: every carrier
    with every fragment it can be combined with.  Lists of two values: the whole pool in the thorough
    tier, the values of the first QUICK_CARRIERS_2 carriers in the quick tier."""
    if al.is_decline(cfg):
        return []
    out = []
    cars = carriers(kind, cfg)
    if blen >= 2 and tier != "thorough":
        cars = cars[:QUICK_CARRIERS_2]
    for cname, _, _, excluded in cars:
        for fname, _ in FRAGMENTS[kind]:
            if fname not in excluded:
                out.append("%s%s:%s:%s:%s" % (PREFIX, kind, cfg, cname, fname))
    return out


def is_setting(name):
    return name.startswith(PREFIX)


def parts(name):
    _, kind, cfg, cname, fname = name.split(":")
    return kind, cfg, cname, fname


def cause_name(name):
    """The name under which a foreign value appears in the signature of a violation (the element is
    part of the signature already, the configuration is not needed)."""
    if name.startswith(al.SHAPE_PREFIX):
        return al.SHAPE_PREFIX + name.split(":")[2]
    if not is_setting(name):
        return name
    _, _, cname, fname = parts(name)
    return "%s%s:%s" % (PREFIX, cname, fname)


def make_b(name):
    """A fresh foreign value (any name of the alphabet)."""
    if not is_setting(name):
        return al.make_b(name)
    kind, cfg, cname, fname = parts(name)
    for c, factory, cctx, excluded in carriers(kind, cfg):
        if c == cname:
            break
    else:
        raise ValueError(name)
    fragment = dict(FRAGMENTS[kind])[fname]
    assert fname not in excluded, name
    # the carrier's own keys win: they are what makes the value unselected
    return (factory(), _merge(fragment, cctx))


def n_values(tier="thorough"):
    return sum(len(pool(k, c, tier, 1)) for k in al.KINDS for c in al.configs(k))
