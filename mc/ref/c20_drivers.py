"""C20 part (b): canned drivers for every public name of every lena subpackage.

Written from the docstrings: "construct with minimal (documented) arguments, push a few values through
the main methods". Everything is a *source string* evaluated inside the fresh child interpreter, in a
namespace that holds only

    P          the subpackage module under test (lena.<sp>)
    lena       the top-level package, only when the entry lists ``needs`` (sibling subpackages a user
               would have to import himself to build the argument, e.g. a histogram for ToCSV)
    helpers    of mc/ref/c20_child.PRELUDE (ident, is_int, FC, FR, RunEl, Scalable, ...)

An entry:  E(sp, name, args, kwargs, drive=..., flow=..., posts=[...], needs=[...], fake_root=bool,
             setup=src, target=src, tag=str, perturb=bool)

``drive`` is "auto" (methods found on the constructed object: run / fill+compute / fill+request /
fill_into / __call__(value) / reset / repr), "result" (a plain function: the call is the probe; lazily
produced results are materialised), "none", or an explicit "+"-joined list of
run, fill_compute, fill_request, fill, fill_into, call1, call0, reset, repr, eq, state, post.
``posts`` are expressions over R (the constructed object / returned result), one step each.
"""

DEFAULT_FLOW = "[1, (2, {}), (3, {'a': {'b': 1}})]"

ENTRIES = []


def E(sp, name, args=(), kwargs=None, drive="auto", flow=None, posts=(), needs=(), fake_root=False,
      setup=None, target=None, tag="", perturb=True):
    ENTRIES.append({
        "sp": sp, "element": name, "target": target or ("P." + name), "args": list(args),
        "kwargs": dict(kwargs or {}), "drive": drive, "flow": flow or DEFAULT_FLOW,
        "posts": list(posts), "needs": list(needs), "fake_root": bool(fake_root), "setup": setup,
        "tag": tag, "perturb": bool(perturb),
    })


# ---------------------------------------------------------------------------------------------- core
E("core", "Call", ["ident"], drive="call1+repr")
E("core", "Call", ["FC()", "'fill'"], drive="call1", tag="method-name")
E("core", "Call", ["Plain()"], tag="not-callable", perturb=False)
E("core", "FillCompute", ["FC()"])
E("core", "FillCompute", ["FR()"], tag="from-fill-request", perturb=False)
E("core", "FillCompute", ["Plain()"], tag="no-methods", perturb=False)
E("core", "FillInto", ["ident"], drive="fill_into")
E("core", "FillInto", ["P.Run(ident)"], drive="fill_into", tag="run-el", perturb=False)
E("core", "FillInto", ["Plain()"], tag="no-methods", perturb=False)
E("core", "FillInto", ["P.Split([])"], drive="fill_into", tag="split", perturb=False)
E("core", "FillRequest", ["FC()"], {"bufsize": "2", "reset": "True", "buffer_input": "True"},
  drive="run+fill_request+reset", flow="[1, 2]")
E("core", "FillRequest", ["RunEl()"], {"bufsize": "2", "buffer_output": "True"}, drive="run",
  flow="[1, 2, 3, 4, 5]", tag="run-el", perturb=False)
E("core", "FillRequest", ["FC()"], {"bufsize": "0", "reset": "True", "buffer_input": "True"},
  tag="bad-bufsize", perturb=False)
E("core", "FillRequest", ["Plain()"], {"buffer_input": "True"}, tag="no-methods", perturb=False)
E("core", "Run", ["ident"], drive="run+repr+eq")
E("core", "Run", ["FC()"], drive="run+repr", tag="fill-compute", perturb=False)
E("core", "Run", ["None"], {"run": "RunEl().run"}, drive="run", tag="function", perturb=False)
E("core", "Run", ["Plain()"], tag="no-methods", perturb=False)
E("core", "SourceEl", ["gen12"], drive="call0+repr")
E("core", "SourceEl", ["[1, 2]"], drive="call0", tag="iterable", perturb=False)
E("core", "SourceEl", ["5"], tag="not-callable", perturb=False)
E("core", "LenaSequence", ["ident", "RunEl()"], drive="post",
  posts=["len(R)", "[type(e).__name__ for e in R]", "R[0] is ident", "R == R", "R._get_context()"])
E("core", "Sequence", ["ident", "RunEl()"], drive="run+repr+eq")
E("core", "Sequence", ["Plain()"], tag="bad-element", perturb=False)
E("core", "Sequence", ["(ident, ident)"], tag="tuple", perturb=False)
E("core", "Source", ["gen12", "ident"], drive="call0+repr+eq")
E("core", "Source", ["[1, 2]"], drive="call0", tag="iterable", perturb=False)
E("core", "Source", [], tag="empty", perturb=False)
E("core", "Source", ["5"], tag="bad-first", perturb=False)
E("core", "Split", ["[(ident,), (RunEl(), ident)]"], {"bufsize": "2"}, drive="run+repr+eq")
E("core", "Split", ["[FC(), (ident, FC())]"], drive="fill_compute+repr", tag="fill-compute")
E("core", "Split", ["[P.Source(gen12), P.Source(gen12)]"], drive="call0", tag="source", perturb=False)
E("core", "Split", ["[]"], drive="run", tag="empty", perturb=False)
E("core", "Split", ["[(ident,)]"], drive="call0", tag="call-non-source", perturb=False)
E("core", "Split", ["[Plain()]"], tag="bad-element", perturb=False)
E("core", "Split", ["(ident,)"], tag="not-a-list", perturb=False)
E("core", "LenaSplit", ["[P.Sequence(ident)]"], drive="post",
  posts=["R == R", "R._get_context()", "R._set_context({'a': 1})"])
E("core", "FillSeq", ["ident", "FC()"], drive="fill+post", posts=["R._data_seq[-1].vals", "R == R"])
E("core", "FillSeq", [], tag="empty", perturb=False)
E("core", "FillSeq", ["ident"], tag="no-fill", perturb=False)
E("core", "FillComputeSeq", ["ident", "FC()", "ident"], drive="fill_compute+repr")
E("core", "FillComputeSeq", ["ident"], tag="no-fc", perturb=False)
E("core", "FillRequestSeq", ["ident", "FR()"], {"bufsize": "2", "reset": "True", "buffer_input": "True"},
  drive="fill_request+run+reset", flow="[1, 2]")
E("core", "FillRequestSeq", ["ident"], {"bufsize": "2", "reset": "True", "buffer_input": "True"},
  tag="no-fr", perturb=False)
for _exc in ("LenaException", "LenaAttributeError", "LenaEnvironmentError", "LenaIndexError",
             "LenaKeyError", "LenaNotImplementedError", "LenaRuntimeError", "LenaStopFill",
             "LenaTypeError", "LenaValueError", "LenaZeroDivisionError"):
    E("core", _exc, ["'msg'"], drive="post",
      posts=["isinstance(R, P.LenaException)", "isinstance(R, Exception)",
             "raise_catch(R, P.LenaException)", "[c.__name__ for c in type(R).__mro__]"])
E("core", "alter_sequence", ["P.Sequence(ident, RunEl())"], drive="result", posts=["type(R).__name__"])
E("core", "alter_sequence", ["ident"], drive="result", tag="element", perturb=False)
E("core", "flatten", ["P.Sequence(P.Sequence(ident), RunEl())"], drive="result",
  posts=["[type(e).__name__ for e in R]"])
E("core", "is_source", ["P.Source(gen12)"], drive="result")
E("core", "is_fill_compute_seq", ["(ident, FC())"], drive="result")
E("core", "is_fill_request_seq", ["(ident, FR())"], drive="result")
E("core", "is_fill_compute_el", ["FC()"], drive="result")
E("core", "is_fill_request_el", ["FR()"], drive="result")
E("core", "is_run_el", ["RunEl()"], drive="result")

# ------------------------------------------------------------------------------------------- context
E("context", "Context", ["{'a': {'b': 1}, 'c': 2}"], drive="call1+repr+post",
  flow="[(1, {'x': 2}), (2, {})]", posts=["R.c", "R.zzz", "R._private", "R._repr_nested()"])
E("context", "Context", [], {"formatter": "5"}, tag="bad-formatter", perturb=False)
E("context", "DeleteContext", ["'a.b'"], drive="call1")
E("context", "DeleteContext", ["('a', 'b')"], drive="call1", tag="tuple", perturb=False)
E("context", "UpdateContext", ["'a'", "5"], drive="call1+repr+eq")
E("context", "UpdateContext", ["'a.c'", "'{{a.b}}'"], {"value": "True"}, drive="call1+repr",
  tag="context-value")
E("context", "UpdateContext", ["'a.c'", "'{{a.b}}'"], {"value": "True", "default": "0"}, drive="call1",
  tag="context-value-default", perturb=False)
E("context", "UpdateContext", ["'a.c'", "'{{a.b}}'"], {"value": "True", "skip_on_missing": "True"},
  drive="call1", tag="context-value-skip", perturb=False)
E("context", "UpdateContext", ["'c'", "'{{a.b}}_s'"], drive="call1+repr", tag="format-string")
E("context", "UpdateContext", ["'c'", "'{{a.b}}_s'"], {"raise_on_missing": "True"}, drive="call1",
  tag="format-string-raise", perturb=False)
E("context", "UpdateContext", ["'c'", "'{{a.b}}_s'"], {"skip_on_missing": "True"}, drive="call1",
  tag="format-string-skip", perturb=False)
E("context", "UpdateContext", ["'c'", "'{{a.b'"], tag="bad-template", perturb=False)
E("context", "UpdateContext", ["''", "1"], tag="empty-subcontext", perturb=False)
E("context", "UpdateContext", ["'c'", "{'x': 1}"], {"recursively": "False"}, drive="call1",
  tag="not-recursively", perturb=False)
E("context", "IncludeExcludeTree", ["set(['a'])", "{}", "True"], drive="repr+post",
  posts=["R.get({'a': 1, 'b': 2})", "R == R"])
E("context", "contains", ["{'a': {'b': 1}}", "'a.b'"], drive="result")
E("context", "contains", ["{'a': {'b': 1}}", "'a.x.y'"], drive="result", tag="missing", perturb=False)
E("context", "difference", ["{'a': 1, 'b': {'c': 2}}", "{'a': 1, 'b': {'c': 3}}"], drive="result")
E("context", "format_context", ["'{{a.b}}_x'"], drive="result",
  posts=["R({'a': {'b': 1}})", "R({})", "R({'a': 5})"])
E("context", "format_context", ["'{a}'"], drive="result", tag="single-brace", perturb=False)
E("context", "format_context", ["'{{a'"], drive="result", tag="unbalanced", perturb=False)
E("context", "format_update_with", ["'k.l'", "'{{a}}_v'", "{'a': 1}"], drive="result")
E("context", "format_update_with", ["'k'", "'{{zzz}}'", "{'a': 1}"], drive="result", tag="missing",
  perturb=False)
E("context", "get_recursively", ["{'a': {'b': 1}}", "'a.b'"], drive="result")
E("context", "get_recursively", ["{'a': {'b': 1}}", "'a.zzz'"], drive="result", tag="missing", perturb=False)
E("context", "get_recursively", ["{'a': {'b': 1}}", "'x.y'"], drive="result", tag="missing-nested",
  perturb=False)
E("context", "get_recursively", ["{'a': {'b': 1}}", "{'a': 'b'}"], drive="result", tag="dict-keys",
  perturb=False)
E("context", "get_recursively", ["{'a': {'b': 1}}", "['a', 'b']"], drive="result", tag="list-keys",
  perturb=False)
E("context", "get_recursively", ["{'a': {'b': 1}}", "{'a': 1, 'b': 2}"], drive="result", tag="bad-dict-keys",
  perturb=False)
E("context", "intersection", ["{'a': 1, 'b': {'c': 2}}", "{'a': 1, 'b': {'c': 3}}"], drive="result")
E("context", "intersection", ["{'a': 1}", "{'a': 1}"], {"zzz": "1"}, drive="result", tag="bad-kwarg",
  perturb=False)
E("context", "str_to_dict", ["'a.b'", "1"], drive="result")
E("context", "str_to_dict", ["''", "1"], drive="result", tag="empty-with-value", perturb=False)
E("context", "str_to_dict", ["'a'"], drive="result", tag="one-level", perturb=False)
E("context", "str_to_list", ["'a.b'"], drive="result")
E("context", "to_string", ["{'b': 1, 'a': [1, 2]}"], drive="result")
E("context", "to_string", ["{'a': Plain()}"], drive="result", tag="unserialisable", perturb=False)
E("context", "update_nested", ["'k'", "{'k': 1}", "{'z': 2}"], drive="result")
E("context", "update_recursively", ["{'a': {'b': 1}}", "{'a': {'c': 2}}"], drive="result")
E("context", "update_recursively", ["{'a': {'b': 1}}", "'a.c'", "2"], drive="result", tag="string",
  perturb=False)
E("context", "update_recursively", ["{'a': 1}", "{'b': 1}", "2"], drive="result", tag="value-with-dict",
  perturb=False)
E("context", "make_include_exclude_tree", ["('a.b',)", "('',)"], drive="result",
  posts=["R.get({'a': {'b': 1, 'c': 2}, 'd': 3})", "R"])
E("context", "make_include_exclude_tree", ["('a',)", "('b',)"], drive="result", tag="no-root", perturb=False)
E("context", "make_include_exclude_tree", ["('a..b',)", "('',)"], drive="result", tag="bad-key",
  perturb=False)

# ---------------------------------------------------------------------------------------------- flow
E("flow", "Cache", ["'c.pkl'"], drive="run+repr+post",
  posts=["R.cache_exists()", "list(R.run(iter([])))", "type(P.Cache.alter_sequence(R)).__name__",
         "R.drop_cache()", "R.cache_exists()", "R.drop_cache()"])
E("flow", "Cache", ["'d/{{a.b}}.pkl'"], drive="post+run", tag="context-name", perturb=False,
  posts=["R._set_context({'a': {'b': 'x'}})", "R._set_context({})"])
E("flow", "Count", [], drive="run+fill_compute+fill_into+reset+repr+eq")
E("flow", "DropContext", ["ident"], drive="run", flow="[(1, {'a': 1}), (2, {})]")
E("flow", "DropContext", ["ident"], drive="run", tag="no-context", perturb=False)
E("flow", "End", [], drive="run+repr+eq")
E("flow", "Filter", ["is_int"], drive="run+fill_into+repr+eq")
E("flow", "Filter", ["5"], tag="bad-selector", perturb=False)
E("flow", "Print", [], drive="call1")
E("flow", "Progress", [], drive="run")
E("flow", "StoreFilled", [])
E("flow", "StoreFilled", [], {"yield_as_a_group": "False"}, tag="one-by-one", perturb=False)
E("flow", "Chain", ["[1, 2]", "(3,)"], drive="call0+repr+eq")
E("flow", "CountFrom", ["2", "3"], drive="call0+repr+eq")
E("flow", "CountFrom", ["'x'"], tag="bad-start", perturb=False)
E("flow", "ISlice", ["1", "3"])
E("flow", "Reverse", [], drive="run+repr+eq")
E("flow", "Slice", ["1", "3"], drive="run+fill_into+repr+eq")
E("flow", "Slice", ["-2", "None"], drive="run+repr", tag="negative")
E("flow", "Slice", ["0", "5", "0"], tag="zero-step", perturb=False)
E("flow", "Slice", ["-3", "-1", "-1"], tag="negative-step", perturb=False)
E("flow", "Zip", ["[FC(), (ident, FC())]"], drive="fill_compute")
E("flow", "Zip", ["[FC(), FC()]"], {"fields": "['a', 'b']"}, drive="fill_compute", tag="fields",
  flow="[(1, {'x': 1})]", perturb=False)
E("flow", "Zip", ["[]"], tag="empty", perturb=False)
E("flow", "Zip", ["[FC(), (ident,)]"], tag="mixed-types", perturb=False)
E("flow", "Zip", ["[(ident,)]"], tag="sequence-type", perturb=False)
E("flow", "get_context", ["(1, {'a': 2})"], drive="result")
E("flow", "get_data", ["(1, {'a': 2})"], drive="result")
E("flow", "get_data_context", ["(1, {'a': 2})"], drive="result")
E("flow", "GroupBy", ["'a'"], drive="fill_compute+reset+eq+post",
  flow="[(1, {'a': 1, 'b': 2}), (2, {'a': 1}), (3, {'a': 2}), 4]", posts=["R.groups"])
E("flow", "GroupBy", [], drive="fill_compute", tag="default", perturb=False)
E("flow", "GroupBy", ["('a', 'b.c')", "'a.x'"], drive="fill_compute", tag="tuple", perturb=False,
  flow="[(1, {'a': {'x': 1, 'y': 2}}), (2, {'a': {'x': 2, 'y': 2}})]")
E("flow", "GroupBy", ["'a'"], drive="fill", flow="[(1, {'a': Plain()})]", tag="unserialisable",
  perturb=False)
E("flow", "group_plots", ["[(1, {'a': 1, 'output': {'changed': True}}), (2, {'a': 1})]"], drive="result")
E("flow", "GroupPlots", ["'{{a}}'"], drive="run", flow="[(1, {'a': 1}), (2, {'a': 2}), (3, {'a': 1})]")
E("flow", "GroupPlots", ["'{{a}}'"], drive="run", tag="missing-key", perturb=False)
E("flow", "GroupPlots", ["'{{a}}'"], {"select": "is_int", "scale": "2", "yield_selected": "True"},
  drive="run", flow="[(Scalable(1), {'a': 1}), 2]", tag="options", perturb=False)
E("flow", "scale_to", ["2", "[Scalable(1), (Scalable(4), {})]"], drive="result")
E("flow", "scale_to", ["true", "[Scalable(4)]"], drive="result", tag="selector", perturb=False)
E("flow", "scale_to", ["true", "[Scalable(4), Scalable(2)]"], drive="result", tag="two-candidates",
  perturb=False)
E("flow", "scale_to", ["2", "[5]"], drive="result", tag="unknown-scale", perturb=False)
E("flow", "scale_to", ["2", "[Scalable(0)]"], drive="result", tag="zero-scale", perturb=False)
E("flow", "GroupScale", ["2"], drive="call1", flow="[[Scalable(1)], 5, [5]]")
E("flow", "MapGroup", ["ident"], drive="run",
  flow="[([1, 2], {'group': [{'a': 1, 'c': 0}, {'a': 2, 'c': 0}]}), 3, ([1], {'group': []})]")
E("flow", "MapGroup", ["ident"], {"zzz": "1"}, tag="bad-kwarg", perturb=False)
E("flow", "RunningChunkBy", ["2"], drive="run")
E("flow", "RunningChunkBy", ["2"], {"container": "list", "from_iterable": "True"}, drive="run",
  tag="list-container")
E("flow", "RunningChunkBy", ["2"], {"container": "5"}, tag="bad-container", perturb=False)
E("flow", "seq_map", ["lena.core.Sequence(ident)", "[1, 2]"], drive="result", needs=["lena.core"])
E("flow", "seq_map", ["lena.core.Sequence(P.End())", "[1, 2]"], drive="result", needs=["lena.core"],
  tag="not-one-result", perturb=False)
E("flow", "RunIf", ["is_int", "ident"], drive="run")
E("flow", "RunIf", ["5"], tag="bad-select", perturb=False)
E("flow", "RunIf", ["is_int", "Plain()"], tag="bad-seq", perturb=False)
E("flow", "And", ["(is_int, true)"], drive="call1+repr+eq")
E("flow", "Or", ["[is_int, 'a.b']"], drive="call1+repr+eq")
E("flow", "Not", ["is_int"], drive="call1+repr+eq")
E("flow", "Not", ["raiser"], {"raise_on_error": "False"}, drive="call1+repr", tag="swallow", perturb=False)
E("flow", "Selector", ["is_int"], drive="call1+repr+eq")
E("flow", "Selector", ["int"], drive="call1+repr+eq", tag="class", perturb=False)
E("flow", "Selector", ["'a.b'"], drive="call1+repr+eq", tag="string", perturb=False)
E("flow", "Selector", ["'a.b.c.d'"], drive="call1", tag="string-through-scalar", perturb=False)
E("flow", "Selector", ["[int, 'a']"], drive="call1+repr", tag="list", perturb=False)
E("flow", "Selector", ["(int, 'a')"], drive="call1+repr", tag="tuple", perturb=False)
E("flow", "Selector", ["5"], tag="bad", perturb=False)
E("flow", "Selector", ["raiser"], drive="call1", tag="raising", perturb=False)
E("flow", "Selector", ["raiser"], {"raise_on_error": "False"}, drive="call1", tag="swallow", perturb=False)
E("flow", "SelectContext", ["'a.b'", "is_int"], drive="call1")
E("flow", "SelectContext", ["'a.b'", "raiser"], {"raise_on_error": "False"}, drive="call1", tag="swallow",
  perturb=False)

# --------------------------------------------------------------------------------------------- input
E("input", "ReadROOTFile", [], drive="run", flow="['f.root']", tag="no-root")
E("input", "ReadROOTFile", [], drive="run", flow="['f.root', ('g.root', {'a': 1})]", fake_root=True)
E("input", "ReadROOTFile", ["'k'"], {"raise_on_missing": "True"}, drive="run", flow="['f.root']",
  fake_root=True, tag="missing-key", perturb=False)
E("input", "ReadROOTFile", ["[1]"], fake_root=True, tag="bad-keys", perturb=False)
E("input", "ReadROOTTree", ["['x']"], drive="run", tag="no-root")
E("input", "ReadROOTTree", ["['x']"], drive="run", fake_root=True)
E("input", "ReadROOTTree", [], {"get_entries": "ident"}, drive="run", fake_root=True, tag="get-entries")
E("input", "ReadROOTTree", ["['x']"], drive="run", fake_root=True, tag="tree", perturb=False,
  flow="[fake_tree(), (fake_tree(), {'a': 1})]")
E("input", "ReadROOTTree", [], fake_root=True, tag="nothing-given", perturb=False)
E("input", "ReadROOTTree", ["['x*']"], fake_root=True, tag="regexp", perturb=False)
E("input", "ReadROOTTree", ["[1]"], fake_root=True, tag="bad-leaves", perturb=False)

# ---------------------------------------------------------------------------------------------- math
E("math", "clip", ["5", "(0, 3)"], drive="result")
E("math", "clip", ["5", "(3, 0)"], drive="result", tag="decreasing", perturb=False)
E("math", "clip", ["5", "(0, 1, 2)"], drive="result", tag="bad-size", perturb=False)
E("math", "flatten", ["[1, [2, [3, (4,)]]]"], drive="result")
E("math", "isclose", ["1.0", "1.0 + 1e-12"], drive="result")
E("math", "isclose", ["[1.0, 2.0]", "[1.0, 2.0]"], drive="result", tag="lists", perturb=False)
E("math", "isclose", ["P.vector3(1, 2, 3)", "P.vector3(1, 2, 3)"], drive="result", tag="vectors",
  perturb=False)
E("math", "isclose", ["'a'", "'a'"], drive="result", tag="unsupported", perturb=False)
E("math", "md_map", ["ident", "[[1, 2], [3, 4]]"], drive="result")
E("math", "md_map", ["ident", "(1, 2)"], drive="result", tag="not-list", perturb=False)
E("math", "mesh", ["(0, 1)", "2"], drive="result")
E("math", "mesh", ["((0, 1), (0, 2))", "(1, 2)"], drive="result", tag="2d", perturb=False)
E("math", "refine_mesh", ["[0, 1, 2]", "2"], drive="result")
E("math", "vector3", ["1", "2", "3"], drive="repr+post",
  posts=["(R.x, R.y, R.z)", "R.r", "R.phi", "R.theta", "R.rho", "R.r2", "R.costheta", "R + R", "R - R",
         "R * 2", "2 * R", "R / 2", "-R", "R == R", "R != R", "R < R", "list(R)", "len(R)", "R[0]",
         "R.dot(R)", "R.cross(R)", "R.norm()", "R.angle(P.vector3(0, 0, 1))", "R.cosine(R)",
         "R.proj(R)", "R.scalar_proj(R)", "R.rotate(1, P.vector3(0, 0, 1))", "R.isclose(R)", "bool(R)",
         "P.vector3.from_spherical(1, 0, 0)", "R / 0", "P.vector3(0, 0, 0).norm()"])
E("math", "Mean", [], drive="fill_compute+reset")
E("math", "Mean", [], drive="compute_empty", tag="empty", perturb=False)
E("math", "Mean", [], {"pass_on_empty": "True"}, drive="compute_empty", tag="pass-on-empty", perturb=False)
E("math", "Mean", ["P.Sum()"], drive="fill_compute+reset", tag="sum-seq")
E("math", "Mean", ["FC2()"], drive="fill_compute", tag="sum-seq-two-results", perturb=False)
E("math", "Mean", ["FCnoreset()"], drive="fill_compute+reset", tag="sum-seq-no-reset", perturb=False)
E("math", "DSum", [], drive="fill_compute+reset+repr+eq+post", posts=["R.total"],
  flow="[1, (0.1, {}), (2.5, {'a': 1})]")
E("math", "Sum", [], drive="fill_compute+reset+eq+post", posts=["R.total"])
E("math", "VarianceMeanCount", [], drive="fill_compute+eq+reset")
E("math", "VarianceMeanCount", [], drive="compute_empty", tag="empty", perturb=False)
E("math", "VarianceMeanCount", [], drive="fill_compute", flow="[1]", tag="one-value", perturb=False)
E("math", "Vectorize", ["P.Sum()"], {"dim": "2"}, drive="fill_compute+reset",
  flow="[(1, 2), ((3, 4), {'a': 1})]")
E("math", "Vectorize", ["[P.Sum(), P.Mean()]"], {"construct": "P.vector3"}, drive="fill_compute",
  flow="[(1, 2), ((3, 4), {'a': 1})]", tag="list")
E("math", "Vectorize", ["P.Sum()"], tag="no-dim", perturb=False)
E("math", "Vectorize", ["[P.Sum()]"], {"dim": "2"}, tag="list-with-dim", perturb=False)
E("math", "Vectorize", ["Plain()"], {"dim": "2"}, tag="not-fill-compute", perturb=False)
E("math", "variance_mean_count", ["1.0", "2.0", "3"], drive="post", posts=["R.mean", "tuple(R)"])

# ---------------------------------------------------------------------------------------------- meta
E("meta", "SetContext", ["'a.b'", "1"], drive="repr+eq+post", posts=["R._get_context()"])
E("meta", "SetContext", ["'a'", "'{{zzz}}'"], drive="repr+post", posts=["R._get_context()"],
  tag="missing-key", perturb=False)
E("meta", "StoreContext", [], drive="repr+eq+post", posts=["R._set_context({'a': 1})", "R.context"])
E("meta", "UpdateContextFromStatic", [], drive="run+eq", flow="[(1, {}), (2, {'a': 1})]")
E("meta", "UpdateContextFromStatic", [], drive="run", tag="no-context", perturb=False)
E("meta", "pipeline", [], drive="run+repr+post", needs=["lena.core"], perturb=False,
  target="lambda: lena.core.Sequence(P.SetContext('a', 1), P.UpdateContextFromStatic(), "
         "P.SetContext('b', '{{a}}_x'), P.StoreContext())",
  flow="[(1, {}), (2, {'c': 1})]", posts=["R[3].context", "R._get_context()"])

# -------------------------------------------------------------------------------------------- output
E("output", "PDFToPNG", [], drive="run", flow="[('x.pdf', {'output': {'filetype': 'pdf'}}), 1]")
E("output", "PDFToPNG", [], drive="run", tag="foreign", perturb=False)
E("output", "LaTeXToPDF", [], drive="run", flow="[('x.tex', {'output': {'filetype': 'tex'}}), 1]")
E("output", "LaTeXToPDF", [], drive="run", tag="foreign", perturb=False)
E("output", "LaTeXToPDF", [], {"create_command": "5"}, tag="bad-command", perturb=False)
E("output", "MakeFilename", ["'out_{{a.b}}'"], drive="call1")
E("output", "MakeFilename", [], {"dirname": "'d'", "fileext": "'csv'", "prefix": "'p_'", "suffix": "'_s'"},
  drive="call1", tag="parts", flow="[1, (2, {'output': {'prefix': 'q_', 'dirname': 'e'}})]")
E("output", "MakeFilename", [], tag="nothing", perturb=False)
E("output", "MakeFilename", ["'f'"], {"prefix": "'p'"}, tag="filename-and-prefix", perturb=False)
E("output", "MakeFilename", ["5"], tag="not-a-string", perturb=False)
E("output", "RenderLaTeX", ["'t.tex'"], drive="run", setup="open('t.tex', 'w').write('\\\\VAR{a.b}')",
  flow="[('1,2', {'output': {'filetype': 'csv'}, 'a': {'b': 7}}), 1]")
E("output", "RenderLaTeX", [], drive="run", tag="no-template", perturb=False,
  flow="[('1,2', {'output': {'filetype': 'csv'}})]")
E("output", "RenderLaTeX", ["'missing.tex'"], drive="run", tag="missing-template", perturb=False,
  flow="[('1,2', {'output': {'filetype': 'csv'}})]")
E("output", "RenderLaTeX", ["5"], tag="bad-template", perturb=False)
E("output", "Write", ["'out'"], drive="run",
  flow="[('text', {'output': {'filename': 'f', 'fileext': 'txt'}}), 1, ('text', {}), "
       "('text', {'output': {'filename': 'f', 'fileext': 'txt'}}), ('t', {'output': {'filename': ''}})]")
E("output", "Write", ["5"], tag="bad-directory", perturb=False)
E("output", "Write", ["'o'"], {"existing_unchanged": "True", "overwrite": "True"}, tag="exclusive",
  perturb=False)
E("output", "Write", ["'{{a}}'"], drive="post+run", posts=["R._set_context({'a': 'dd'})", "R._set_context({})"],
  flow="[('text', {})]", tag="context-dir", perturb=False)
E("output", "Writer", ["'out'"], drive="run", flow="[('text', {'output': {'filename': 'f'}}), 1]")
E("output", "WriteROOTTree", ["'t'", "'f.root'"], drive="run", tag="no-root")
E("output", "WriteROOTTree", ["'t'", "'f.root'"], drive="run", fake_root=True,
  flow="[(1, {'variable': {'name': 'x'}}), (2, {'variable': {'name': 'x'}})]")
E("output", "WriteROOTTree", ["'t'", "('f.root', 'recreate')"], drive="run", fake_root=True,
  tag="tuple-with-option", perturb=False, flow="[(1, {'variable': {'name': 'x'}})]")
E("output", "WriteROOTTree", ["'t'", "('f.root',)"], drive="run", fake_root=True, tag="tuple",
  perturb=False, flow="[(1, {})]")
E("output", "WriteROOTTree", ["'t'", "()"], fake_root=True, tag="empty-tuple", perturb=False)
E("output", "WriteROOTTree", ["'t'", "5"], fake_root=True, tag="bad-file", perturb=False)
E("output", "ToCSV", [], drive="run", needs=["lena.structures"],
  flow="[(lena.structures.histogram([0, 1, 2], [1, 2]), {}), "
       "(lena.structures.histogram([[0, 1, 2], [0, 1]], [[1], [2]]), {}), "
       "(lena.structures.graph([[0, 1], [2, 3]]), {}), 5, ('s', {'output': {'to_csv': False}}), "
       "(lena.structures.histogram([0, 1], [Plain()]), {})]")
E("output", "ToCSV", [], drive="run", tag="plain-values", perturb=False)
E("output", "iterable_to_table", ["[(1, 2), (3, 4), 5]"], drive="result")
E("output", "iterable_to_table", ["[(1, 2)]"], {"format_": "('{}', '{:.1f}')", "header": "'{} {}'",
                                                "header_fields": "('a', 'b')", "footer": "'end'"},
  drive="result", tag="formatted", perturb=False)
E("output", "hist1d_to_csv", ["lena.structures.histogram([0, 1, 2], [1, 2])"], drive="result",
  needs=["lena.structures"])
E("output", "hist1d_to_csv", ["lena.structures.histogram([0, 1], [Plain()])"], drive="result",
  needs=["lena.structures"], tag="bad-content", perturb=False)
E("output", "hist2d_to_csv", ["lena.structures.histogram([[0, 1, 2], [0, 1]], [[1], [2]])"], drive="result",
  needs=["lena.structures"])

# ---------------------------------------------------------------------------------------- structures
_H1 = "P.histogram([0, 1, 2], [5, 6])"
E("structures", "graph", ["[[0, 1], [2, 3]]"], {"scale": "2"}, drive="repr+post",
  posts=["R.scale()", "R.scale(4)", "R.coords", "list(R)", "R + R", "R == R", "list(R.rows())",
         "R._update_context({})", "R.dim"])
E("structures", "graph", ["[[0, 1], [2, 3], [0.1, 0.2]]"], {"field_names": "'x,y,error_y'", "scale": "1"},
  drive="repr+post", tag="errors", perturb=False,
  posts=["R.scale(2)", "R.coords", "dict_after(R._update_context)", "R._parsed_error_names"])
E("structures", "graph", ["[[0, 1], [2, 3]]"], drive="post", posts=["R.scale(2)"], tag="no-scale",
  perturb=False)
E("structures", "graph", ["[]"], tag="empty", perturb=False)
E("structures", "graph", ["[[0, 1], [2]]"], tag="unequal", perturb=False)
E("structures", "graph", ["[[0], [1]]"], {"field_names": "'x,x'"}, tag="duplicate-names", perturb=False)
E("structures", "graph", ["[[0], [1]]"], {"field_names": "'error_x,y'"}, tag="error-first", perturb=False)
E("structures", "graph", ["[[0], [1]]"], {"field_names": "['x', 'y']"}, tag="names-list", perturb=False)
E("structures", "Graph", [], {"scale": "1"}, drive="fill_compute+repr+post+reset+eq",
  flow="[(0, 1), ((1, 2), {'a': 1})]", posts=["R.scale()", "R.scale(2)", "list(R.rows())", "R.points"])
E("structures", "Graph", [], drive="post", posts=["R.scale()"], tag="no-scale", perturb=False)
E("structures", "Graph", [], {"context": "5"}, tag="bad-context", perturb=False)
E("structures", "Graph", ["[((0, 1), 2), (0, 3)]"], tag="mixed-dimensions", perturb=False)
E("structures", "histogram", ["[0, 1, 2]"], drive="repr+post",
  posts=["R.fill(0.5)", "R.fill(5)", "R.fill(1, 2)", "R.bins", "R.scale()", "R.scale(2)", "R.add(R)",
         "R.add(5)", "R.add(P.histogram([0, 1, 3]))", "R.get_nevents()", "R.set_nevents(4)", "R == R",
         "dict_after(R._update_context)", "R.n_out_of_range"])
E("structures", "histogram", ["[[0, 1, 2], [0, 1]]"], drive="repr+post", tag="2d", perturb=False,
  posts=["R.fill((0.5, 0.5))", "R.fill((0.5, 7))", "R.bins", "R.scale()", "R.get_nevents(True)"])
E("structures", "histogram", ["[0, 1, 2]"], drive="post", posts=["R.scale(2)", "R.set_nevents(3)"],
  tag="zero", perturb=False)
E("structures", "histogram", ["[0, 1, 2]", "[1]"], tag="bad-bins", perturb=False)
E("structures", "histogram", ["[0, 0]"], tag="not-increasing", perturb=False)
E("structures", "histogram", ["[]"], tag="empty-edges", perturb=False)
E("structures", "HistCell", ["((0, 1),)", "5", "(0,)"], drive="post", posts=["R.bin", "tuple(R)"])
E("structures", "Histogram", ["[0, 1, 2]"], drive="fill_compute+reset")
E("structures", "Histogram", ["[0, 1, 2]"], {"bins": "[1, 2]", "make_bins": "list"}, tag="bins-and-make-bins",
  perturb=False)
E("structures", "HistToGraph", [], drive="run", flow="[(%s, {}), 5, (%s, {'histogram': {'to_graph': False}})]"
  % (_H1, _H1))
E("structures", "HistToGraph", ["lena.variables.Variable('v', ident)"], {"get_coordinate": "'middle'"},
  drive="run", needs=["lena.variables"], flow="[(%s, {})]" % _H1, tag="make-value")
E("structures", "HistToGraph", ["ident"], tag="bad-make-value", perturb=False)
E("structures", "HistToGraph", [], {"get_coordinate": "'top'"}, tag="bad-coordinate", perturb=False)
E("structures", "ScaleTo", ["2"], drive="call1", flow="[%s, (%s, {}), 5]" % (_H1, _H1))
E("structures", "NumpyHistogram", [], tag="no-numpy")
E("structures", "root_graph_errors", ["P.graph([[0, 1], [2, 3]])"], tag="no-root")
E("structures", "root_graph_errors", ["P.graph([[0, 1], [2, 3], [1, 1]], field_names='x,y,error_y')"],
  fake_root=True, drive="post", posts=["len(R)", "list(R)", "R == R", "dict_after(R._update_context)"])
E("structures", "root_graph_errors", ["P.graph([[0, 1], [2, 3], [4, 5]], field_names='x,y,z')"],
  fake_root=True, tag="3d", perturb=False)
E("structures", "ROOTGraphErrors", [], drive="call1", fake_root=True,
  flow="[P.graph([[0, 1], [2, 3]]), (P.graph([[0, 1], [2, 3]]), {'a': 1}), 5]")
E("structures", "ROOTGraphErrors", [], drive="call1", flow="[P.graph([[0, 1], [2, 3]])]", tag="no-root",
  perturb=False)
E("structures", "check_edges_increasing", ["[0, 1, 2]"], drive="result")
E("structures", "check_edges_increasing", ["[[0, 1], [0, 0]]"], drive="result", tag="not-increasing",
  perturb=False)
E("structures", "check_edges_increasing", ["[[0, 1], [0]]"], drive="result", tag="too-short", perturb=False)
E("structures", "cell_to_string", ["((0, 1), (2, 3))"], drive="result")
E("structures", "cell_to_string", ["((0, 1), (2, 3))"], {"var_context": "{'combine': [{'name': 'x'}, {'name': 'y'}]}",
                                                         "reverse": "True"}, drive="result", tag="combine",
  perturb=False)
E("structures", "cell_to_string", ["((0, 1), (2, 3))"], {"var_context": "{'name': 'x'}"}, drive="result",
  tag="wrong-length", perturb=False)
E("structures", "get_bin_edges", ["(0, 1)", "[[0, 1, 2], [0, 1, 2]]"], drive="result")
E("structures", "get_bin_edges", ["1", "[0, 1, 2]"], drive="result", tag="1d", perturb=False)
E("structures", "get_bin_on_value_1d", ["0.5", "[0, 1, 2]"], drive="result")
E("structures", "get_bin_on_value", ["(0.5, 1.5)", "[[0, 1, 2], [0, 1, 2]]"], drive="result")
E("structures", "get_bin_on_value", ["(0.5,)", "[[0, 1, 2], [0, 1, 2]]"], drive="result", tag="wrong-dimension",
  perturb=False)
E("structures", "get_bin_on_index", ["(0, 1)", "[[1, 2], [3, 4]]"], drive="result")
E("structures", "get_bin_on_index", ["5", "[1]"], drive="result", tag="bad-index", perturb=False)
E("structures", "get_example_bin", [_H1], drive="result")
E("structures", "get_example_bin", ["[[7, 8], [9, 10]]"], drive="result", tag="bins", perturb=False)
E("structures", "hist_to_graph", [_H1], drive="result")
E("structures", "hist_to_graph", [_H1], {"get_coordinate": "'top'"}, drive="result", tag="bad-coordinate",
  perturb=False)
E("structures", "hist_to_graph", [_H1], {"field_names": "['x', 'y']"}, drive="result", tag="names-list",
  perturb=False)
E("structures", "init_bins", ["[[0, 1, 2], [0, 1]]", "0"], drive="result")
E("structures", "integral", ["[1, 2]", "[[0, 1, 3]]"], drive="result")
E("structures", "iter_bins", ["[[1, 2], [3, 4]]"], drive="result")
E("structures", "iter_bins_with_edges", ["[1, 2]", "[0, 1, 2]"], drive="result")
E("structures", "iter_cells", [_H1], drive="result")
E("structures", "iter_cells", [_H1], {"ranges": "((0, 1),)", "coord_ranges": "(0, 1)"}, drive="result",
  tag="both-ranges", perturb=False)
E("structures", "iter_cells", [_H1], {"ranges": "((-1, 1),)"}, drive="result", tag="negative-low", perturb=False)
E("structures", "iter_cells", [_H1], {"ranges": "((0, 9),)"}, drive="result", tag="up-too-large", perturb=False)
E("structures", "iter_cells", [_H1], {"coord_ranges": "(0.5, 1.5)"}, drive="result", tag="coord-ranges",
  perturb=False)
E("structures", "make_hist_context", ["P.histogram([0, 1, 2])", "{'a': 1}"], drive="result")
E("structures", "unify_1_md", ["[1]", "[0, 1]"], drive="result")
E("structures", "SplitIntoBins", ["FC()", "lena.variables.Variable('x', ident)", "[0, 2, 4]"],
  needs=["lena.variables"], drive="fill_compute", flow="[1, (3, {'a': 1}), 7]")
E("structures", "SplitIntoBins", ["Plain()", "lena.variables.Variable('x', ident)", "[0, 2, 4]"],
  needs=["lena.variables"], tag="bad-seq", perturb=False)
E("structures", "SplitIntoBins", ["FC()", "ident", "[0, 2, 4]"], tag="bad-variable", perturb=False)
E("structures", "IterateBins", [], drive="run",
  flow="[(P.histogram([0, 1, 2], [(5, {'b': 1}), (6, {'b': 2})]), {'variable': {'name': 'x'}}), 5, "
       "(%s, {})]" % _H1)
E("structures", "IterateBins", ["5"], tag="bad-create-edges-str", perturb=False)
E("structures", "MapBins", ["ident"], drive="run", flow="[(%s, {'a': 1}), 5]" % _H1)
E("structures", "MapBins", ["Plain()"], tag="bad-seq", perturb=False)
E("structures", "MapBins", ["ident"], {"select_bins": "5"}, tag="bad-select", perturb=False)

# ----------------------------------------------------------------------------------------- variables
E("variables", "Variable", ["'x'", "ident"], {"type": "'coordinate'", "unit": "'mm'"},
  drive="call1+repr+post", posts=["R.name", "R.unit", "R.zzz", "R._private", "R.var_context"])
E("variables", "Variable", ["'x'", "5"], tag="bad-getter", perturb=False)
E("variables", "Variable", ["'x'", "P.Variable('y', ident)"], tag="variable-getter", perturb=False)
E("variables", "Combine", ["P.Variable('x', ident)", "P.Variable('y', first)"], drive="call1+repr+post",
  flow="[(1, 2), ((3, 4), {'variable': {'name': 'old', 'type': 't', 't': {'name': 'old'}}})]",
  posts=["R[0]", "R.dim", "R.name"])
E("variables", "Combine", [], tag="empty", perturb=False)
E("variables", "Combine", ["ident"], tag="not-variables", perturb=False)
E("variables", "Compose", ["P.Variable('x', ident, type='a')", "P.Variable('y', ident, type='b')"],
  drive="call1+repr+post", posts=["R.name", "R.var_context"])
E("variables", "Compose", [], tag="empty", perturb=False)
E("variables", "Compose", ["P.Variable('x', ident)"], {"getter": "ident"}, tag="getter-given", perturb=False)
E("variables", "abs", ["P.Variable('x', ident)"])
E("variables", "Cm", ["P.Variable('x', ident, unit='mm')"])
E("variables", "Cm", ["P.Variable('x', ident, unit='m')"], tag="metres", perturb=False)
E("variables", "Cm", ["P.Variable('x', ident)"], tag="no-unit", perturb=False)
E("variables", "Cm", ["P.Variable('x', ident, unit='ft')"], tag="unknown-unit", perturb=False)


SUBPACKAGES = ["context", "core", "flow", "input", "math", "meta", "output", "structures", "variables"]

# values put in every argument position, one at a time (thorough: also two at a time)
POOL_QUICK = ["None", "0", "-1", "1.5", "''", "'x'", "'a.b.c'", "'{{a.b}}'", "[]", "()", "{}",
              "{'a': {'b': 1}}", "ident", "Plain()", "True", "[1, 2]"]
POOL_THOROUGH = POOL_QUICK + ["'{{a'", "(1, 2)", "[[0, 1, 2], [0, 1]]", "FC()", "RunEl()", "2",
                              "float('nan')", "b'x'", "int", "[Plain()]", "('a', 'b')", "{'a': 1}",
                              "raiser", "gen12", "-0.5", "'a..b'"]
POOL_PAIRS = ["None", "0", "'x'", "'{{a.b}}'", "[]", "{}", "ident", "Plain()", "True", "-1"]


def entries_for(sp):
    return [e for e in ENTRIES if e["sp"] == sp]


def elements_of(sp):
    seen = []
    for e in ENTRIES:
        if e["sp"] == sp and e["element"] not in seen:
            seen.append(e["element"])
    return seen
