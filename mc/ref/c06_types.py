"""C06: the numeric-type axis of coordinates and weights, and JSON forms of such numbers.

The statement speaks of coordinates and weights, not of floats: every kind of real number Python
offers is a coordinate as long as it can be compared with, and subtracted from, the edges. This
module lists, for one 1-dimensional edge array, coordinates of every such kind:

  fraction   fractions.Fraction: exactly on every edge, strictly between every edge and the float
             just below it (a point no float can express), one third into every bin (so a point
             above every edge but the last), outside on both sides, beyond the float range
  int        integers beyond the float range on both sides
  bool       True, False
  intsub     an int subclass on every integer edge
  floatsub   a float subclass (what numpy.float64 is) on every edge
  decimal    decimal.Decimal - ONLY for arrays of integers, because Python defines no arithmetic
             between Decimal and float: on every edge, 1e-9 below it, the middle of every bin,
             outside, beyond the float range, +-Infinity

Nothing here looks at lena; the values are built from the edges with exact constructors only
(no Decimal arithmetic, which would round to the context precision).
"""
import math
from decimal import Decimal
from fractions import Fraction

INF = float("inf")


class IntSub(int):
    """An integer type that is not int itself."""
    __slots__ = ()


class FloatSub(float):
    """A float type that is not float itself (like numpy.float64)."""
    __slots__ = ()


KINDS = ("fraction", "int", "bool", "intsub", "floatsub", "decimal")

# weights of exact non-float types (conservation is judged with Fractions, so it stays exact)
TYPED_WEIGHTS = [Fraction(-1, 3), Decimal("0.1")]


def all_int(edges):
    return all(type(e) is int for e in edges)


def _dec(scaled, digits):
    """The exact Decimal scaled * 10**-digits (string constructor: no context rounding)."""
    return Decimal("%de-%d" % (scaled, digits))


def typed_coordinates(edges):
    """[(kind, coordinate)] for one strictly increasing list of finite ints/floats; deterministic,
    without repetitions."""
    out = []
    seen = set()

    def add(kind, x):
        key = (kind, repr(x))
        if key not in seen:
            seen.add(key)
            out.append((kind, x))

    fr = [Fraction(e) for e in edges]
    span = fr[-1] - fr[0]
    third = Fraction(1, 3)
    # ---- exact rationals
    add("fraction", fr[0] - span - third)
    for e, f in zip(edges, fr):
        lo = Fraction(math.nextafter(float(e), -INF))
        add("fraction", (lo + f) / 2)
        add("fraction", f)
    for a, b in zip(fr, fr[1:]):
        add("fraction", a + (b - a) / 3)
    add("fraction", fr[-1] + span + third)
    add("fraction", Fraction(10 ** 400, 3))
    add("fraction", Fraction(-10 ** 400, 3))
    # ---- integers no float can hold, booleans
    add("int", 10 ** 400)
    add("int", -10 ** 400)
    add("bool", False)
    add("bool", True)
    # ---- subclasses of the built-in numbers
    for e in edges:
        if type(e) is int:
            add("intsub", IntSub(e))
        add("floatsub", FloatSub(e))
    # ---- decimals, where arithmetic with the edges exists
    if all_int(edges):
        width = edges[-1] - edges[0]
        add("decimal", Decimal(edges[0] - width - 1))
        for e in edges:
            add("decimal", _dec(e * 10 ** 9 - 1, 9))
            add("decimal", Decimal(e))
        for a, b in zip(edges, edges[1:]):
            add("decimal", _dec(5 * (a + b), 1))
        add("decimal", Decimal(edges[-1] + width + 1))
        for s in ("1e400", "-1e400", "Infinity", "-Infinity"):
            add("decimal", Decimal(s))
    return out


def typed_axis_coordinates(axis):
    """A short list for one axis of a multidimensional point: below the range, and for every edge
    the exact rational on it and the rational just below it, a boolean, a float subclass."""
    out = []
    seen = set()

    def add(x):
        key = (type(x).__name__, repr(x))
        if key not in seen:
            seen.add(key)
            out.append(x)
    fr = [Fraction(e) for e in axis]
    add(fr[0] - (fr[-1] - fr[0]) - Fraction(1, 3))
    for e, f in zip(axis, fr):
        add((Fraction(math.nextafter(float(e), -INF)) + f) / 2)
        add(f)
    add(True)
    add(FloatSub(axis[-1]))
    if all_int(axis):
        add(_dec(5 * (axis[0] + axis[1]), 1))
    return out


def kind_of(x):
    t = type(x)
    if t is Fraction:
        return "fraction"
    if t is Decimal:
        return "decimal"
    if t is bool:
        return "bool"
    if t is IntSub:
        return "intsub"
    if t is FloatSub:
        return "floatsub"
    return t.__name__


def kinds_of(coord):
    """Sorted kinds of a coordinate (number or point), joined - a label for causes."""
    if isinstance(coord, (list, tuple)):
        return "/".join(sorted(set(kind_of(c) for c in coord)))
    return kind_of(coord)


# ---- JSON-safe forms (replay files) ---------------------------------------------------------------
def enc(x):
    """A number of any of the kinds above (or nested lists/tuples of them) as JSON can carry it."""
    t = type(x)
    if t is list or t is tuple:
        return [enc(v) for v in x]
    if t is Fraction:
        return {"fraction": [x.numerator, x.denominator]}
    if t is Decimal:
        return {"decimal": str(x)}
    if t is IntSub:
        return {"intsub": int(x)}
    if t is FloatSub:
        return {"floatsub": enc(float(x))}
    if t is float and (x != x or x in (INF, -INF)):
        return repr(x)
    return x


def dec(x):
    if isinstance(x, list):
        return [dec(v) for v in x]
    if isinstance(x, str):
        return float(x)
    if isinstance(x, dict):
        (k, v), = x.items()
        if k == "fraction":
            return Fraction(v[0], v[1])
        if k == "decimal":
            return Decimal(v)
        if k == "intsub":
            return IntSub(v)
        if k == "floatsub":
            return FloatSub(dec(v))
        raise ValueError(k)
    return x
