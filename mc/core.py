"""Runner for the bounded exhaustive checks of /verif (see DESIGN.md sections 2 and 6).

    ./check Cxx [--tier quick|thorough] [--replay FILE] [--jobs N] [--list]

A check module ``mc.checks.cNN`` provides

    ID, LEVEL, RULE, ASSUMPTIONS, DESIGN_REF      constants
    shards(tier)      -> list of JSON-able shard descriptors, simplest first; a descriptor may be a
                         dict with a "bound" key (label of the bound it belongs to)
    run_shard(p, tier)-> mc.core.Result   (enumerates the shard completely, judging every case)
    replay(case)      -> list of violation dicts for that single case (empty: property holds)
    BUDGET_S          optional {"quick": s, "thorough": s}

Exit status: 0 property held on everything explored (known findings are printed and tolerated),
1 after a line ``VIOLATION property=<id> replay=<path>``, 2 internal error of the harness.
"""
import collections
import hashlib
import importlib
import json
import multiprocessing
import os
import sys
import time
import traceback

VERIF = os.path.dirname(os.path.dirname(os.path.abspath(__file__)))
REPO = os.path.realpath(os.environ.get("VERIF_REPO", "/repo"))
LEVELS = ("exploration", "fault_enumeration", "model_checking")
DEFAULT_BUDGET = {"quick": 240, "thorough": 3000}


def setup_lena():
    """Import lena from the working tree under test and refuse anything else."""
    if sys.path[0] != REPO:
        sys.path.insert(0, REPO)
    import lena
    origin = os.path.realpath(lena.__file__ or list(lena.__path__)[0])
    if not origin.startswith(REPO + os.sep):
        sys.stderr.write("internal error: lena imported from %s, expected under %s\n"
                         % (origin, REPO))
        sys.exit(2)
    return lena


def digest(obj):
    if not isinstance(obj, (bytes, str)):
        obj = repr(obj)
    if isinstance(obj, str):
        obj = obj.encode("utf-8", "backslashreplace")
    return hashlib.blake2b(obj, digest_size=8).digest()


def jsonable(x, depth=0):
    """Best-effort conversion of a case / outcome to something json can dump."""
    if depth > 12:
        return repr(x)
    if x is None or isinstance(x, (bool, int, str)):
        return x
    if isinstance(x, float):
        return x if x == x and abs(x) != float("inf") else repr(x)
    if isinstance(x, (list, tuple)):
        return [jsonable(i, depth + 1) for i in x]
    if isinstance(x, (set, frozenset)):
        return sorted((jsonable(i, depth + 1) for i in x), key=repr)
    if isinstance(x, dict):
        return {str(k): jsonable(v, depth + 1) for k, v in x.items()}
    return repr(x)


class Result(object):
    """What one shard covered. All counts are measured while the shard runs."""

    MAX_OUTCOMES = 200000

    def __init__(self):
        self.evaluations = 0
        self.nontrivial_count = 0
        self.nontrivial_keys = set()
        self.outcomes = set()
        self.samples = []
        self.states = 0
        self.transitions = 0
        self.traces = 0
        self.extra = collections.Counter()
        self.maxima = {}
        # cause key -> [count, first violation]
        self.viol = collections.OrderedDict()

    # -- bookkeeping ---------------------------------------------------------------------------
    def case(self, nontrivial=False, outcome=None, key=None, n=1):
        """Record one executed case. *key* makes non-trivial cases distinct across shards."""
        self.evaluations += n
        if nontrivial:
            if key is None:
                self.nontrivial_count += n
            else:
                self.nontrivial_keys.add(digest(key))
        if outcome is not None and len(self.outcomes) < self.MAX_OUTCOMES:
            self.outcomes.add(digest(outcome))

    def outcome(self, outcome):
        if len(self.outcomes) < self.MAX_OUTCOMES:
            self.outcomes.add(digest(outcome))

    def sample(self, case, limit=3):
        if len(self.samples) < limit:
            self.samples.append(jsonable(case))

    def count(self, name, n=1):
        self.extra[name] += n

    def maximum(self, name, value):
        if value > self.maxima.get(name, value - 1):
            self.maxima[name] = value

    def violation(self, case, observed, expected, cause, note=""):
        """Record a violation. *cause* is the structural signature compared with
        known_findings.json; only the first (smallest) case per distinct cause is kept."""
        ckey = json.dumps(jsonable(cause), sort_keys=True)
        ent = self.viol.get(ckey)
        if ent is None:
            self.viol[ckey] = [1, {"case": jsonable(case), "observed": jsonable(observed),
                                   "expected": jsonable(expected), "cause": jsonable(cause),
                                   "note": note}]
        else:
            ent[0] += 1

    # -- transport -----------------------------------------------------------------------------
    def pack(self):
        return {"evaluations": self.evaluations, "nt_count": self.nontrivial_count,
                "nt_keys": self.nontrivial_keys, "outcomes": self.outcomes,
                "samples": self.samples, "states": self.states, "transitions": self.transitions,
                "traces": self.traces, "extra": dict(self.extra), "maxima": self.maxima,
                "viol": list(self.viol.items())}


def _start_cover(modname, idx):
    """Development aid (tools/cover.py): with VERIF_COVER=<dir> every shard records which lines of the
    lena tree under test it executes (coverage.py on sys.monitoring, so the sys.settrace step watchdog
    stays free). Off by default; no verdict depends on it."""
    cdir = os.environ.get("VERIF_COVER")
    if not cdir:
        return None
    os.environ["COVERAGE_CORE"] = "sysmon"
    import coverage
    cov = coverage.Coverage(data_file=os.path.join(cdir, "%s.%d" % (modname.rsplit(".", 1)[-1], idx)),
                            include=[os.path.join(REPO, "lena", "*")], config_file=False)
    cov.start()
    return cov


def _worker(args):
    modname, idx, params, tier = args
    t0 = time.time()
    try:
        mod = importlib.import_module(modname)
        cov = _start_cover(modname, idx)
        try:
            res = mod.run_shard(params, tier)
        finally:
            if cov is not None:
                cov.stop()
                cov.save()
        if not isinstance(res, Result):
            raise TypeError("run_shard must return mc.core.Result")
        return idx, res.pack(), None, time.time() - t0
    except BaseException:  # noqa: report as internal error, never as a verdict
        return idx, None, traceback.format_exc(), time.time() - t0


def load_known(prop):
    path = os.path.join(VERIF, "known_findings.json")
    if not os.path.exists(path):
        return []
    with open(path) as f:
        data = json.load(f)
    return [e for e in data.get("findings", [])
            if e.get("property") == prop and e.get("status") == "known"]


def matches(signature, cause):
    """A known finding covers a violation iff every field of its signature equals the
    corresponding field the check computed for that violation."""
    if not isinstance(cause, dict) or not signature:
        return False
    return all(cause.get(k) == v for k, v in signature.items())


def bound_label(p):
    if isinstance(p, dict) and "bound" in p:
        return str(p["bound"])
    return "all"


def main(argv=None):
    argv = list(sys.argv[1:] if argv is None else argv)
    if os.environ.get("PYTHONHASHSEED") != "0":
        os.environ["PYTHONHASHSEED"] = "0"
        os.execv(sys.executable, [sys.executable, "-m", "mc.core"] + argv)
    if not argv or argv[0] in ("-h", "--help"):
        print(__doc__)
        return 2
    if argv[0] == "--list":
        for f in sorted(os.listdir(os.path.join(VERIF, "mc", "checks"))):
            if f.startswith("c") and f.endswith(".py"):
                print(f[:-3].upper())
        return 0
    prop = argv[0].upper()
    tier = os.environ.get("VERIF_TIER") or "quick"
    replay = None
    jobs = int(os.environ.get("VERIF_JOBS", "0") or 0)
    i = 1
    while i < len(argv):
        if argv[i] == "--tier":
            tier = argv[i + 1]; i += 2
        elif argv[i] == "--replay":
            replay = argv[i + 1]; i += 2
        elif argv[i] == "--jobs":
            jobs = int(argv[i + 1]); i += 2
        else:
            sys.stderr.write("unknown argument %r\n" % argv[i]); return 2
    if tier not in ("quick", "thorough"):
        sys.stderr.write("tier must be quick or thorough\n"); return 2
    try:
        seed = int(os.environ.get("VERIF_SEED", "0") or 0)
    except ValueError:
        seed = 0

    setup_lena()
    modname = "mc.checks." + prop.lower()
    try:
        mod = importlib.import_module(modname)
    except ImportError:
        traceback.print_exc()
        sys.stderr.write("internal error: no check module for %s\n" % prop)
        return 2
    if mod.LEVEL not in LEVELS:
        sys.stderr.write("internal error: bad level\n"); return 2

    if replay is not None:
        return do_replay(mod, prop, replay)
    return run_check(mod, modname, prop, tier, seed, jobs)


def shard_replay_fails(prop, sr):
    """Run one shard in a fresh interpreter; True iff it reports a violation with the recorded cause."""
    import subprocess
    import tempfile
    fd, path = tempfile.mkstemp(prefix="lena-verif-shard-", suffix=".json")
    try:
        with os.fdopen(fd, "w") as f:
            json.dump({"shard_replay": sr, "case": None}, f)
        p = subprocess.run([sys.executable, "-m", "mc.core", prop, "--replay", path], cwd=VERIF,
                           stdout=subprocess.DEVNULL, stderr=subprocess.DEVNULL)
        return p.returncode == 1
    finally:
        os.remove(path)


def do_shard_replay(mod, prop, rec, path):
    sr = rec["shard_replay"]
    res = mod.run_shard(sr["shard"], sr["tier"])
    for ckey, (cnt, v) in res.viol.items():
        if ckey == sr["cause_key"]:
            print("replayed violation (shard %s re-enumerated from a fresh interpreter): cause=%s"
                  % (json.dumps(sr["shard"]), ckey))
            print("  case     = %s" % json.dumps(jsonable(v.get("case")))[:2000])
            print("  observed = %s" % json.dumps(jsonable(v.get("observed")))[:2000])
            print("  expected = %s" % json.dumps(jsonable(v.get("expected")))[:2000])
            print("VIOLATION property=%s replay=%s" % (prop, os.path.abspath(path)))
            return 1
    print("replay: property %s holds on this shard" % prop)
    return 0


def do_replay(mod, prop, path):
    with open(path) as f:
        rec = json.load(f)
    if isinstance(rec, dict) and rec.get("shard_replay"):
        return do_shard_replay(mod, prop, rec, path)
    case = rec["case"] if isinstance(rec, dict) and "case" in rec else rec
    viols = mod.replay(case)
    if viols:
        for v in viols:
            print("replayed violation: cause=%s" % json.dumps(jsonable(v.get("cause")), sort_keys=True))
            print("  case     = %s" % json.dumps(jsonable(v.get("case", case)))[:2000])
            print("  observed = %s" % json.dumps(jsonable(v.get("observed")))[:2000])
            print("  expected = %s" % json.dumps(jsonable(v.get("expected")))[:2000])
        print("VIOLATION property=%s replay=%s" % (prop, os.path.abspath(path)))
        return 1
    print("replay: property %s holds on this case" % prop)
    return 0


def result_violations(res):
    """Violation dicts of a Result (used by replay() implementations)."""
    return [v for _, (n, v) in res.viol.items()]


def run_check(mod, modname, prop, tier, seed, jobs):
    t0 = time.time()
    budget = getattr(mod, "BUDGET_S", DEFAULT_BUDGET).get(tier, DEFAULT_BUDGET[tier])
    budget = float(os.environ.get("VERIF_BUDGET_S", budget))
    shard_list = list(mod.shards(tier))
    # the budget is for exploring; listing the shards (which for some checks includes a discovery stage)
    # is not counted, and at least one shard is always completed, so that a stop by the budget on a
    # loaded machine still leaves a truthful, non-empty report instead of an internal error
    t_run = time.time()
    n = len(shard_list)
    if n == 0:
        sys.stderr.write("internal error: no shards\n"); return 2
    order = list(range(n))
    # VERIF_SEED only rotates the order in which shards are visited and which samples are shown.
    # Shards of the smallest bound always go first so that an early stop reports a complete bound.
    rot = seed % n
    labels = [bound_label(p) for p in shard_list]
    label_order = []
    for lab in labels:
        if lab not in label_order:
            label_order.append(lab)
    order = []
    for lab in label_order:
        idxs = [k for k in range(n) if labels[k] == lab]
        r = rot % len(idxs)
        order.extend(idxs[r:] + idxs[:r])
    ncpu = os.cpu_count() or 1
    nproc = max(1, min(jobs or 16, ncpu, n))

    packed = {}
    errors = []
    shard_time = {}
    timed_out = False
    tasks = [(modname, k, shard_list[k], tier) for k in order]
    if nproc == 1:
        for t in tasks:
            if time.time() - t_run > budget and (packed or errors):
                timed_out = True
                break
            k, pk, err, dt = _worker(t)
            shard_time[k] = dt
            if err:
                errors.append((k, err))
            else:
                packed[k] = pk
    else:
        ctx = multiprocessing.get_context("fork")
        # one freshly forked process per shard: whatever state the code under test keeps at module or
        # class level cannot travel from one shard to the next, so a shard is reproducible from a
        # fresh interpreter (the parent never executes the code under test)
        pool = ctx.Pool(nproc, maxtasksperchild=1)
        try:
            it = pool.imap_unordered(_worker, tasks, chunksize=1)
            while True:
                remaining = budget - (time.time() - t_run)
                if not (packed or errors):
                    remaining = None          # the first shard is always awaited
                elif remaining <= 0:
                    timed_out = True
                    break
                try:
                    k, pk, err, dt = it.next(timeout=remaining)
                except StopIteration:
                    break
                except multiprocessing.TimeoutError:
                    timed_out = True
                    break
                shard_time[k] = dt
                if err:
                    errors.append((k, err))
                else:
                    packed[k] = pk
        finally:
            pool.terminate()
            pool.join()

    if errors:
        for k, err in errors[:3]:
            sys.stderr.write("internal error in shard %d %r:\n%s\n"
                             % (k, jsonable(shard_list[k]), err))
        return 2

    # ---- aggregate in deterministic (index) order ---------------------------------------------
    evaluations = nt_count = states = transitions = traces = 0
    nt_keys, outcomes = set(), set()
    extra = collections.Counter()
    maxima = {}
    samples_by_shard = []
    viol = collections.OrderedDict()
    viol_shard = {}
    for k in sorted(packed):
        pk = packed[k]
        evaluations += pk["evaluations"]
        nt_count += pk["nt_count"]
        nt_keys |= pk["nt_keys"]
        outcomes |= pk["outcomes"]
        states += pk["states"]
        transitions += pk["transitions"]
        traces += pk["traces"]
        extra.update(pk["extra"])
        for name, v in pk["maxima"].items():
            if v > maxima.get(name, v - 1):
                maxima[name] = v
        if pk["samples"]:
            samples_by_shard.append(pk["samples"])
        for ckey, (cnt, v) in pk["viol"]:
            if ckey in viol:
                viol[ckey][0] += cnt
            else:
                viol[ckey] = [cnt, v]
                viol_shard[ckey] = k
    distinct_nontrivial = nt_count + len(nt_keys)

    samples = []
    if samples_by_shard:
        r = seed % len(samples_by_shard)
        rotated = samples_by_shard[r:] + samples_by_shard[:r]
        step = max(1, len(rotated) // 6)
        for s in rotated[::step][:6]:
            samples.append(s[seed % len(s)])

    bounds = collections.OrderedDict()
    for lab in label_order:
        idxs = [k for k in range(n) if labels[k] == lab]
        done = sum(1 for k in idxs if k in packed)
        bounds[lab] = {"shards": len(idxs), "completed": done}
    completed_bounds = [lab for lab, b in bounds.items() if b["completed"] == b["shards"]]
    exhaustive = (not timed_out) and len(packed) == n

    # ---- violations: known findings vs new ----------------------------------------------------
    known = load_known(prop)
    known_hit = collections.OrderedDict()
    fresh = []
    for ckey, (cnt, v) in viol.items():
        v["_shard"] = viol_shard.get(ckey)
        v["_ckey"] = ckey
        hit = None
        for e in known:
            if matches(e.get("signature"), v.get("cause")):
                hit = e
                break
        if hit is not None:
            known_hit.setdefault(hit["id"], [hit, 0])[1] += cnt
        else:
            fresh.append((cnt, v))
    for fid, (e, cnt) in known_hit.items():
        print("KNOWN-FINDING: property=%s %s [%s; %d occurrence(s) in this run]"
              % (prop, e["what"], fid, cnt))

    replay_paths = []
    rc = 0
    if fresh:
        rdir = os.environ.get("VERIF_REPLAY_DIR", os.path.join(VERIF, "replays"))
        os.makedirs(rdir, exist_ok=True)
        for num, (cnt, v) in enumerate(fresh[:10]):
            # every failure is re-executed once from its recorded case before it is reported
            shard_k, ckey = v.pop("_shard", None), v.pop("_ckey", None)
            try:
                again = mod.replay(v["case"])
            except Exception:
                traceback.print_exc()
                again = None
            if not again and shard_k is not None:
                # The case alone does not fail: the failure may depend on what the worker had done
                # before (state kept at module or class level by the code under test). It is trusted
                # only if the shard that found it fails again, with the same cause, when it is
                # enumerated from a fresh interpreter; that is then the replayable artefact.
                sr = {"shard": jsonable(shard_list[shard_k]), "tier": tier, "cause_key": ckey}
                if shard_replay_fails(prop, sr):
                    v["shard_replay"] = sr
                    v["note"] = ((v.get("note") or "") + " [the case alone does not fail; the failure needs the "
                                 "cases enumerated before it in this shard, replay re-runs the shard from a "
                                 "fresh interpreter]").strip()
                    again = True
            if not again:
                sys.stderr.write("internal error: violation did not reproduce on replay: %s\n"
                                 % json.dumps(v)[:3000])
                return 2
            path = os.path.join(rdir, "%s-%d.json" % (prop, num))
            rec = dict(v)
            rec["property"] = prop
            rec["occurrences"] = cnt
            rec["tier"] = tier
            with open(path, "w") as f:
                json.dump(rec, f, indent=1, sort_keys=True)
            replay_paths.append(path)
            print("violation %d (%d occurrence(s)): cause=%s" % (num, cnt, json.dumps(v["cause"], sort_keys=True)))
            print("  case     = %s" % json.dumps(v["case"])[:1500])
            print("  observed = %s" % json.dumps(v["observed"])[:1500])
            print("  expected = %s" % json.dumps(v["expected"])[:1500])
            if v.get("note"):
                print("  note     = %s" % v["note"])
        for path in replay_paths:
            print("VIOLATION property=%s replay=%s" % (prop, path))
        rc = 1

    # ---- evidence -------------------------------------------------------------------------------
    wall = time.time() - t0
    coverage = collections.OrderedDict()
    coverage["evaluations"] = evaluations
    coverage["distinct_nontrivial"] = distinct_nontrivial
    coverage["rule"] = mod.RULE
    coverage["samples"] = samples
    coverage["exhaustive"] = exhaustive
    coverage["distinct_observed_outcomes"] = len(outcomes)
    if mod.LEVEL == "model_checking" or states or transitions:
        coverage["states"] = states
        coverage["transitions"] = transitions
        coverage["traces_validated_against_impl"] = traces
    coverage["shards_total"] = n
    coverage["shards_completed"] = len(packed)
    coverage["bounds"] = bounds
    coverage["bounds_completed"] = completed_bounds
    if timed_out:
        coverage["stopped_by_time_budget_s"] = budget
    coverage["counters"] = dict(sorted(extra.items()))
    if maxima:
        coverage["maxima"] = dict(sorted(maxima.items()))
    coverage["known_findings_matched"] = {fid: c for fid, (e, c) in known_hit.items()}
    coverage["workers"] = nproc
    coverage["repo"] = REPO
    desc = getattr(mod, "describe", None)
    if desc is not None:
        coverage["bounds_description"] = desc(tier)
    evidence = collections.OrderedDict()
    evidence["property_id"] = prop
    evidence["tier"] = tier
    evidence["seed"] = seed
    evidence["level"] = mod.LEVEL
    evidence["coverage"] = coverage
    evidence["assumptions"] = list(mod.ASSUMPTIONS)
    evidence["wall_s"] = round(wall, 3)
    evidence["violations"] = sum(c for c, _ in fresh)
    problems = validate_evidence(evidence)
    if problems:
        sys.stderr.write("internal error: evidence would not validate: %s\n" % problems)
        return 2
    os.makedirs(os.path.join(VERIF, "evidence"), exist_ok=True)
    epath = os.environ.get("VERIF_EVIDENCE_DIR", os.path.join(VERIF, "evidence"))
    os.makedirs(epath, exist_ok=True)
    tmp = os.path.join(epath, ".%s.json.tmp%d" % (prop, os.getpid()))
    with open(tmp, "w") as f:
        json.dump(evidence, f, indent=1)
        f.write("\n")
    os.replace(tmp, os.path.join(epath, "%s.json" % prop))

    print("%s %s: %d evaluations, %d distinct non-trivial, %d distinct outcomes%s, "
          "%d/%d shards, exhaustive=%s, %.1fs, new violations=%d, known findings=%d"
          % (prop, tier, evaluations, distinct_nontrivial, len(outcomes),
             (", %d states / %d transitions" % (states, transitions)) if states else "",
             len(packed), n, exhaustive, wall, len(fresh), len(known_hit)))
    if timed_out and rc == 0:
        print("note: time budget of %.0fs reached; bounds completed: %s" % (budget, completed_bounds))
    floor = getattr(mod, "NONTRIVIAL_FLOOR", {}).get(tier)
    if exhaustive and floor is not None and distinct_nontrivial < floor and rc == 0:
        sys.stderr.write("internal error: vacuity guard: %d non-trivial cases < floor %d\n"
                         % (distinct_nontrivial, floor))
        return 2
    return rc


def validate_evidence(ev):
    """Structural check mirroring EVIDENCE.schema.json (jsonschema is not installed in /venv;
    mc/selftest.py validates with the real schema through python3-vt)."""
    bad = []
    cov = ev["coverage"]
    if ev["level"] in ("exploration", "fault_enumeration"):
        if cov["evaluations"] < 1:
            bad.append("evaluations < 1")
        if cov["distinct_nontrivial"] < 2:
            bad.append("distinct_nontrivial < 2")
        if not cov["samples"]:
            bad.append("no samples")
    elif ev["level"] == "model_checking":
        if cov.get("states", 0) < 1 or cov.get("transitions", 0) < 1:
            bad.append("states/transitions < 1")
        if not cov["samples"]:
            bad.append("no samples")
    try:
        json.dumps(ev)
    except (TypeError, ValueError) as e:
        bad.append("not JSON: %s" % e)
    return bad


if __name__ == "__main__":
    # run through the canonical module object so that check modules see the same Result class
    from mc import core as _core
    try:
        _rc = _core.main()
    except SystemExit:
        raise
    except BaseException:
        # an internal error of the harness is never a verdict: exit 2, no VIOLATION line
        traceback.print_exc()
        sys.stderr.write("internal error of the harness\n")
        _rc = 2
    sys.exit(_rc)
